"""fmverif - bounded symbolic checking of flamapy/fm_metamodel (see /verif/DESIGN.md)."""
