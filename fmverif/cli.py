"""./fmv check <ID> [--tier quick|thorough] | ./fmv replay <path> | ./fmv selftest"""
import argparse
import importlib
import os
import sys


def main(argv=None):
    ap = argparse.ArgumentParser(prog='fmv')
    sub = ap.add_subparsers(dest='cmd')
    c = sub.add_parser('check')
    c.add_argument('prop')
    c.add_argument('--tier', default=os.environ.get('VERIF_TIER', 'quick'))
    r = sub.add_parser('replay')
    r.add_argument('path')
    sub.add_parser('selftest')
    args = ap.parse_args(argv)
    sys.setrecursionlimit(10000)
    if args.cmd == 'check':
        from . import runner
        seed = int(os.environ.get('VERIF_SEED', '0') or 0)
        tier = args.tier if args.tier in ('quick', 'thorough') else 'quick'
        mod = importlib.import_module('fmverif.props.' + args.prop.lower())
        return runner.run_check(mod, tier, seed)
    if args.cmd == 'replay':
        from . import replay
        return replay.main([args.path])
    if args.cmd == 'selftest':
        from . import selftest
        return selftest.main()
    ap.print_help()
    return 2


if __name__ == '__main__':
    sys.exit(main())
