"""Known findings: narrow, witness-backed suppression (DESIGN.md section 7).

known_findings.json = {"findings": [ {id, property, key, what, witness: {module, func, args}} ],
                       "fixed": ["fixed: property=<id> <commit> <what failed>", ...]}

A finding suppresses a failing case only if (a) the failing case has exactly its `key`, and
(b) its witness, replayed natively at the start of the run, still fails.  `fixed` entries suppress
nothing.  The file is never written at run time.
"""
import collections
import importlib
import json
import os

HERE = os.path.dirname(os.path.dirname(os.path.abspath(__file__)))
PATH = os.path.join(HERE, 'known_findings.json')
HITS = collections.Counter()
_ACTIVE = None


def load():
    if not os.path.exists(PATH):
        return {'findings': [], 'fixed': []}
    with open(PATH) as f:
        return json.load(f)


def findings_for(prop):
    return [f for f in load()['findings'] if f['property'] == prop]


def witness_fails(finding) -> bool:
    """True iff the recorded witness still violates the property on the current tree."""
    w = finding['witness']
    mod = importlib.import_module(w['module'])
    fn = getattr(mod, w['func'])
    try:
        return bool(fn(*w.get('args', [])))
    except Exception:  # a witness that cannot even run counts as not reproduced
        return False


def active_keys(prop):
    """Keys of the findings of `prop` whose witness still fails (computed natively)."""
    act = []
    for f in findings_for(prop):
        if witness_fails(f):
            act.append(f['key'])
    return act


def _active():
    global _ACTIVE
    if _ACTIVE is None:
        _ACTIVE = set(json.loads(os.environ.get('FMV_KNOWN_ACTIVE', '[]')))
    return _ACTIVE


def set_active(keys):
    global _ACTIVE
    _ACTIVE = set(keys)
    os.environ['FMV_KNOWN_ACTIVE'] = json.dumps(sorted(_ACTIVE))


def known(prop: str, key: str) -> bool:
    """Inside a condition: is a failing case with this signature a listed, still-reproducing
    finding?  Returns True (= treat as passing, keep searching) only then."""
    full = prop + ':' + key
    if full in _active():
        HITS[full] += 1
        return True
    return False
