"""AFM helpers: fragment model builder, file-level round trip."""
from __future__ import annotations

import os

from flamapy.metamodels.fm_metamodel.models import Attribute, Domain, Range
from flamapy.metamodels.fm_metamodel.transformations import AFMWriter, AFMReader

from .. import refsem as R
from . import rt, uvlio
from .c14 import _index


def make(shape, cards, names=None, attrs=None, trees=None):
    """attrs: [(feature index, name, ('range', lo, hi) | ('ranges', [(lo, hi), ...]) | ('enum', [texts]), default text, null text)]"""
    n = R.n_features(shape)
    names = names or ['F%d' % i for i in range(n)]
    cn = R.ctc_names(len(trees or []), n + len(cards))
    ctcs = [R.ctc(cn[i], t) for i, t in enumerate(trees or [])]
    m = R.build(shape, cards, names=names, ctcs=ctcs)
    if attrs:
        feats = _index(m)
        for fi, aname, dom, dflt, null in attrs:
            if dom[0] == 'range':
                d = Domain([Range(dom[1], dom[2])], None)
            elif dom[0] == 'ranges':
                d = Domain([Range(lo, hi) for lo, hi in dom[1]], None)
            else:
                d = Domain(None, list(dom[1]))
            feats[fi].add_attribute(Attribute(aname, d, dflt, null))
    return m


def attr_desc(m):
    out = []
    for f in _index(m):
        for a in f.attributes:
            dom = None
            if a.domain is not None:
                dom = (tuple((str_int(r.min_value), str_int(r.max_value)) for r in a.domain.range_list), tuple(str(e) for e in a.domain.element_list))
            out.append((f.name, a.name, dom, str(a.default_value), str(a.null_value), a.parent.name if a.parent is not None else None))
    return out


def str_int(v):
    """ranges carry integers; accept an int or (defect) anything whose text is the integer"""
    return v if isinstance(v, int) and not isinstance(v, bool) else ('notint', str(getattr(v, 'getText', lambda: v)()))


def canon(m):
    """The order of the relations of one parent is not carried by AFM (single children are listed
    before groups when read back); the order of the children inside a relation is."""
    def feat(f):
        rels = []
        for r in f.relations:
            kids = tuple(feat(c) for c in r.children)
            rels.append((tuple(k[0] for k in kids), r.card_min, r.card_max, r.parent.name if r.parent is not None else None, kids))
        return (f.name, f.parent.name if f.parent is not None else None, tuple(sorted(rels, key=lambda t: t[0])))
    return feat(m.root)


def same(m1, m2) -> bool:
    return canon(m1) == canon(m2) and sorted(attr_desc(m1)) == sorted(attr_desc(m2)) and uvlio.ctcs_same(m1, m2)


def file_roundtrip(m, cycles=3) -> list:
    out = []
    with rt.TempDir() as d:
        p1 = os.path.join(d, 'm1.afm')
        text = AFMWriter(p1, m).transform()
        with open(p1, 'rb') as f:
            raw = f.read()
        if raw.decode('utf-8') != text:
            out.append('returned text differs from the file content')
        m2 = AFMReader(p1).transform()
        if not same(m, m2):
            out.append('model read back differs: %r %r %r vs written %r %r %r' % (canon(m2), attr_desc(m2), [R.node_tree(c.ast.root) for c in m2.ctcs], canon(m), attr_desc(m), [R.node_tree(c.ast.root) for c in m.ctcs]))
            return out
        prev_text, prev_m = None, m2
        for i in range(2, cycles + 1):
            p = os.path.join(d, 'm%d.afm' % i)
            t = AFMWriter(p, prev_m).transform()
            if prev_text is not None and t != prev_text:
                out.append('cycle %d text differs from cycle %d' % (i, i - 1))
                break
            mi = AFMReader(p).transform()
            if not same(prev_m, mi) or R.snapshot(mi, with_attrs=False, with_ctc_names=False) != R.snapshot(prev_m, with_attrs=False, with_ctc_names=False):
                out.append('cycle %d model differs' % i)
                break
            prev_text, prev_m = t, mi
    return out
