"""C01 - UVL round trip returns the same model, at any number of cycles."""
from __future__ import annotations

import itertools
import random

from flamapy.metamodels.fm_metamodel.models import FeatureType, Attribute
from flamapy.metamodels.fm_metamodel.transformations import UVLWriter, UVLReader
from flamapy.metamodels.fm_metamodel.transformations import uvl_writer as UW

from .. import refsem as R
from ..known import known
from ..runner import Cond
from .common import cards_params, indexed_shapes, totuple
from . import rt, uvlio, uvltok
from .uvltok import NoTracing
from .c14 import _index

ID = 'C01'
LEVEL = 'model_checking'

KEYWORDS = ('alternative', 'or', 'mandatory', 'optional')


def same_s(a, b) -> bool:
    return len(a) == len(b) and a == b


# ---------------------------------------------------------------------------------------------
# E1 a: cardinalities (group and feature) through writer leaf -> CARDINALITY token -> reader


def _class_cards(piece, k):
    """representative concrete cards for the keyword a relation was serialised with."""
    if same_s(piece, 'alternative'):
        return (1, 1)
    if same_s(piece, 'or'):
        return (1, k)
    if same_s(piece, 'mandatory'):
        return (1, 1)
    if same_s(piece, 'optional'):
        return (0, 1)
    return None


def rt_cards(shape, cards, fpos, fa, fb) -> bool:
    """all group cardinalities symbolic + the feature cardinality of feature fpos."""
    n = R.n_features(shape)
    rels = R.relations_of(shape)
    fcards = [None] * n
    fcards[fpos] = (fa, fb)
    m = R.build(shape, cards, fcards=fcards)
    relobjs = _rels(m)
    pieces = [UVLWriter.serialize_relation(r) for r in relobjs]
    tcards = []
    sym_slots = []
    for ri, p in enumerate(pieces):
        k = len(rels[ri][1])
        cc = _class_cards(p, k)
        if cc is None:
            tcards.append((70 + ri, 90 + ri))       # placeholder text "[7x..9x]"
            sym_slots.append(ri)
        else:
            tcards.append(cc)
    multi = (fa != 1 or fb != 1)
    tf = [None] * n
    if multi:
        tf[fpos] = (55, 66)
    with NoTracing():
        ttext = UVLWriter(None, R.build(shape, tcards, fcards=tf)).transform()
        tree, tokens, errs = uvltok.parse_text(ttext)
        if errs:
            raise RuntimeError('template does not parse: %r' % errs)
        ctoks = [t for t in tokens if UVLParserNames[t.type] == 'CARDINALITY']
    # expected whole text: template with the placeholder pieces replaced by the symbolic pieces
    expected = ttext
    for ri in sym_slots:
        expected = _replace_once(expected, '[%d..%d]' % (70 + ri, 90 + ri), pieces[ri])
    fpiece = None
    if multi:
        fpiece = '[' + str(fa) + '..' + ('*' if fb == -1 else str(fb)) + ']'
        expected = _replace_once(expected, '[55..66]', fpiece)
    for t in ctoks:
        with NoTracing():
            txt = t.text
        if txt == '[55..66]':
            t.text = fpiece
        else:
            for ri in sym_slots:
                if txt == '[%d..%d]' % (70 + ri, 90 + ri):
                    t.text = pieces[ri]
    m2 = uvltok.reader_on(tree).transform()
    whole = UVLWriter(None, m).transform()
    if not same_s(whole, expected):
        return False
    r2 = _rels(m2)
    if len(r2) != len(relobjs):
        return False
    for a, b in zip(relobjs, r2):
        if a.card_min != b.card_min or a.card_max != b.card_max or len(a.children) != len(b.children):
            return False
    f2 = _index(m2)[fpos]
    if f2.feature_cardinality.min != fa or f2.feature_cardinality.max != fb:
        return False
    return rt.tree_snapshot(m2, attrs=True, types=True) == rt.tree_snapshot(m, attrs=True, types=True)


def _replace_once(text, old, new):
    i = text.find(old)
    if i < 0:
        raise RuntimeError('placeholder %r not in template' % old)
    return text[:i] + new + text[i + len(old):]


def _rels(m):
    out = []

    def walk(f):
        for r in f.relations:
            out.append(r)
            for c in r.children:
                walk(c)
    walk(m.root)
    return out


from uvl.UVLPythonParser import UVLPythonParser as _P  # noqa: E402
UVLParserNames = {i: (n if n != '<INVALID>' else _P.literalNames[i]) for i, n in enumerate(_P.symbolicNames)}
UVLParserNames[-1] = 'EOF'


# ---------------------------------------------------------------------------------------------
# E1 b: names through safename -> identifier token -> reader


PLACE = 'Pqzx'


def rt_name(shape, pos, name, in_ctc) -> bool:
    n = R.n_features(shape)
    names = ['F%d' % i for i in range(n)]
    names[pos] = name
    other = names[(pos + 1) % n]
    trees = [('IMPLIES', name, other), ('NOT', ('AND', other, name))] if in_ctc else []
    cards = R.default_cards(shape)
    types = [None] * n
    types[pos] = FeatureType.INTEGER if in_ctc else None
    m = uvlio.make(shape, cards, names=names, trees=trees, types=types)
    piece = UW.safename(name)
    if not uvltok.lexes_as_identifier(piece):
        if name[0] == "'" and name[len(name) - 1] == "'":
            return known('C01', 'name-in-apostrophes')
        return False                                 # the writer produced something that is not an identifier token
    tnames = list(names)
    tnames[pos] = PLACE
    ttrees = [('IMPLIES', PLACE, other), ('NOT', ('AND', other, PLACE))] if in_ctc else []
    with NoTracing():
        ttext = UVLWriter(None, uvlio.make(shape, cards, names=tnames, trees=ttrees, types=types)).transform()
        tree, tokens, errs = uvltok.parse_text(ttext)
        if errs:
            raise RuntimeError('template does not parse: %r' % errs)
        slots = [t for t in tokens if t.text == PLACE]
    for t in slots:
        t.text = piece
    m2 = uvltok.reader_on(tree).transform()
    whole = UVLWriter(None, m).transform()
    with NoTracing():
        parts = ttext.split(PLACE)
    expected = parts[0]
    for p in parts[1:]:
        expected = expected + piece + p
    if not same_s(whole, expected):
        return False
    return uvlio.same(m, m2)


def rt_attrname(shape, aname) -> bool:
    n = R.n_features(shape)
    m = uvlio.make(shape, R.default_cards(shape), attrs=[(n - 1, aname, 3), (0, 'other', True)])
    piece = UW.safename(aname)
    if not uvltok.lexes_as_identifier(piece):
        if aname[0] == "'" and aname[len(aname) - 1] == "'":
            return known('C01', 'name-in-apostrophes')
        return False
    with NoTracing():
        ttext = UVLWriter(None, uvlio.make(shape, R.default_cards(shape), attrs=[(n - 1, PLACE, 3), (0, 'other', True)])).transform()
        tree, tokens, errs = uvltok.parse_text(ttext)
        if errs:
            raise RuntimeError('template does not parse: %r' % errs)
        slots = [t for t in tokens if t.text == PLACE]
    for t in slots:
        t.text = piece
    m2 = uvltok.reader_on(tree).transform()
    return uvlio.same(m, m2)


# ---------------------------------------------------------------------------------------------
# E1 c: attribute values through serialize_value -> value token -> process_value


def rt_value(kind, ival, sval, bval, jval) -> bool:
    shape = (((), ()),)
    if kind == 0:
        value, tvalue, slots = ival, 7777, {'7777': None}
    elif kind == 1:
        value, tvalue, slots = sval, 'Pqzx', {"'Pqzx'": None}
    elif kind == 2:
        value, tvalue, slots = bval, None, {}
    elif kind == 3:
        value, tvalue, slots = [ival, sval, jval], [7777, 'Pqzx', 8888], {'7777': None, "'Pqzx'": None, '8888': None}
    elif kind == 4:
        value, tvalue, slots = {'k': ival, 'm': [jval, sval]}, {'k': 7777, 'm': [8888, 'Pqzx']}, {'7777': None, "'Pqzx'": None, '8888': None}
    m = uvlio.make(shape, [(1, 2)], attrs=[(1, 'cost', value)])
    if kind == 2:
        tvalue = bool(bval)
    if kind == 3 and False:
        pass
    pieces = {'7777': str(ival), "'Pqzx'": "'" + sval + "'", '8888': str(jval)}
    if kind in (1, 3, 4) and not uvltok.is_string_token(pieces["'Pqzx'"]):
        return False
    with NoTracing():
        ttext = UVLWriter(None, uvlio.make(shape, [(1, 2)], attrs=[(1, 'cost', tvalue)])).transform()
        tree, tokens, errs = uvltok.parse_text(ttext)
        if errs:
            raise RuntimeError('template does not parse: %r' % errs)
        toks = [(t, t.text) for t in tokens]
    for t, txt in toks:
        if txt in slots:
            t.text = pieces[txt]
    m2 = uvltok.reader_on(tree).transform()
    whole = UVLWriter(None, m).transform()
    expected = ttext
    for ph in slots:
        expected = _replace_once(expected, ph, pieces[ph])
    if not same_s(whole, expected):
        return False
    return uvlio.same(m, m2)


# ---------------------------------------------------------------------------------------------
# native file-level batches (real lexer, parser, files)


VALUES = [None, True, False, 0, 1, 1.0, 0.0, 7, -3, 2.5, -0.25, 10.0, [True, 1.0, 1, False, 0.0, 0], {'a': 1.0, 'b': True, 'c': 1}, 'txt', 'a b', 'x', [1, 2], ['a', True, 2.5], [[1, 2], ['z']], {'k': 1}, {'k': [1, 2], 'm': {'z': True, 'w': None}}, [1, 'x']]
CTC_EXTRA = [('EQUALS', ('ADD', 'F1', 'F2'), 3), ('LOWER', ('MUL', 'F1', 2), ('DIV', 'F2', ('SUB', 'F1', 1))), ('GREATER', ('SUM', 'cost', 'F1'), 3),
             ('NOT_EQUALS', ('AVG', 'cost', 'F1'), 2.5), ('EQUALS', 'F1', "'txt'"), ('GREATER_EQUALS', 'F1', 1), ('LOWER_EQUALS', 2, 'F1'),
             ('AND', ('GREATER', 'F1', 0), ('IMPLIES', 'F2', ('LOWER', ('SUB', 'F1', 'F2'), 4))), ('EQUALS', ('SUB', ('SUB', 'F1', 'F2'), 'F1'), 0),
             ('EQUALS', ('SUB', 'F1', ('SUB', 'F2', 'F1')), 0), ('EQUALS', ('DIV', ('MUL', 'F1', 'F2'), ('ADD', 'F1', 2)), 1.5),
             ('EQUALS', 'F1', 0.0), ('GREATER', -1, 'F1'), ('LOWER', ('ADD', 'F1', -2.5), ('MUL', 0, 'F2')), ('NOT_EQUALS', 0, ('SUB', 0.0, 'F1'))]


def replay_file(shape, cards, names, abstract, tcodes, fcards, attrs, trees):
    shape = totuple(shape)
    cards = [tuple(c) for c in cards]
    trees = [totuple(t) for t in (trees or [])]
    types = [uvlio.TYPES[t] for t in tcodes] if tcodes else None
    fc = [tuple(c) if c else None for c in fcards] if fcards else None
    at = [tuple(a) for a in attrs] if attrs else None
    try:
        m = uvlio.make(shape, cards, names=names, abstract=abstract, types=types, fcards=fc, attrs=at, trees=trees)
        bad = uvlio.file_roundtrip(m)
    except Exception as exc:
        bad = ['round trip raises %s: %s' % (type(exc).__name__, exc)]
    out = []
    for b in bad:
        key = classify(names, at, trees)
        if key and known('C01', key):
            continue
        out.append('%s | shape %s cards %r names %r abstract %r types %r fcards %r attrs %r ctcs %r' % (b[:300], R.shape_str(shape), cards, names, abstract, tcodes, fcards, attrs, trees))
    return out


def classify(names, attrs, trees):
    """signature of the listed known findings (narrow)."""
    allnames = list(names or []) + [a[1] for a in (attrs or [])]
    if any(len(nm) >= 1 and nm[0] == "'" and nm[-1] == "'" for nm in allnames):
        return 'name-in-apostrophes'
    if any(_has_single_int_vector(a[2]) for a in (attrs or [])):
        return 'single-int-vector'
    return None


def _has_single_int_vector(v):
    if isinstance(v, list):
        if len(v) == 1 and isinstance(v[0], int) and not isinstance(v[0], bool):
            return True
        return any(_has_single_int_vector(x) for x in v)
    if isinstance(v, dict):
        return any(_has_single_int_vector(x) for x in v.values())
    return False


def witness_apostrophes():
    return bool(uvl_fails(names=['F0', "'q'", 'F2', 'F3']))


def witness_single_int_vector():
    return bool(uvl_fails(attrs=[(1, 'cost', [1])]))


def uvl_fails(**kw):
    try:
        return uvlio.file_roundtrip(uvlio.make((((), ()), ((),)), [(1, 2), (0, 1)], **kw))
    except Exception as exc:
        return ['%s' % exc]


def star_cards(shape, rnd):
    out = []
    for p, cs in R.relations_of(shape):
        k = len(cs)
        a = rnd.randint(0, k)
        b = rnd.choice([-1] + list(range(max(a, 1), k + 1)))
        out.append((a, b))
    return out


def batch_typed_values(seed):
    """values that are equal in Python but of different type (True / 1 / 1.0, False / 0 / 0.0) in one model and in
    consecutive models of one process, in every order: the type written must be the type read back."""
    res = {'instances': 0, 'nontrivial': 0, 'violations': [], 'native_runs': 0}
    shape = (((), ()), ((),))
    import itertools
    groups = [[True, 1.0, 1], [False, 0.0, 0], [1.0, True], [0.0, False], [2, 2.0], [[1.0, True], [True, 1.0]], [{'k': 1.0}, {'k': True}, {'k': 1}]]
    for g in groups:
        for perm in itertools.permutations(g):
            attrs = [(i % 4, 'v%d' % i, v) for i, v in enumerate(perm)]
            args = [shape, [(1, 2), (0, 1)], None, None, None, None, attrs, []]
            res['instances'] += 1
            res['native_runs'] += 1
            res['nontrivial'] += 1
            bad = replay_file(*args)
            if bad:
                res['violations'].append({'label': 'uvl-typed-values', 'detail': bad[0], 'replay_func': 'replay_file', 'replay_args': args})
                if len(res['violations']) >= 4:
                    return res
            # the same values one per model, models written one after the other
            for v in perm:
                a2 = [shape, [(1, 2), (0, 1)], None, None, None, None, [(1, 'w', v)], []]
                res['instances'] += 1
                res['native_runs'] += 1
                bad = replay_file(*a2)
                if bad:
                    res['violations'].append({'label': 'uvl-typed-values', 'detail': bad[0] + ' (after other models in the same process)', 'replay_func': 'replay_typed_sequence', 'replay_args': [list(perm)]})
                    if len(res['violations']) >= 4:
                        return res
    res['sample'] = {'groups': repr(groups)[:200]}
    return res


def replay_typed_sequence(values):
    shape = (((), ()), ((),))
    out = []
    for v in values:
        out += replay_file(shape, [(1, 2), (0, 1)], None, None, None, None, [(1, 'w', v)], [])
    return out


def batch_files(max_n, lo, hi, seed, per):
    rnd = random.Random(seed)
    res = {'instances': 0, 'nontrivial': 0, 'violations': [], 'native_runs': 0}

    def run(args):
        res['instances'] += 1
        res['native_runs'] += 1
        res['nontrivial'] += 1
        bad = replay_file(*args)
        if bad:
            res['violations'].append({'label': 'uvl-file-roundtrip', 'detail': bad[0], 'replay_func': 'replay_file', 'replay_args': args})
        res['sample'] = {'shape': R.shape_str(args[0]), 'cards': args[1], 'attrs': args[6], 'ctcs': args[7]}
        return len(res['violations']) >= 5
    for shape in R.shapes(max_n)[lo:hi]:
        n = R.n_features(shape)
        allc = list(R.all_cards(shape))
        from .common import zero_group_cards
        cl = (allc if len(allc) <= per else rnd.sample(allc, per)) + [star_cards(shape, rnd) for _ in range(2)] + zero_group_cards(shape)
        for cards in cl:
            names = None
            tcodes = [rnd.choice([0, 0, 1, 2, 3, 4]) for _ in range(n)]
            fcards = [rnd.choice([None, None, (0, 3), (2, -1), (2, 2), (0, 1)]) for _ in range(n)]
            abstract = [rnd.random() < 0.3 for _ in range(n)]
            attrs = []
            for fi in range(n):
                for ai in range(rnd.choice([0, 0, 1, 2])):
                    v = rnd.choice(VALUES)
                    attrs.append((fi, rnd.choice(['cost', 'w_1', 'my attr', 'Ünit'])+ str(ai), v))
            attrs.append((min(1, n - 1), 'cost', 3))
            trees = []
            if n >= 3:
                pool = [t for t in R.logical_trees(['F0', 'F1', 'F2'], 1) if isinstance(t, tuple) and 'XOR' not in t]
                trees = [rnd.choice(pool) for _ in range(rnd.randint(0, 2))] + [rnd.choice(CTC_EXTRA)]
            if run([shape, cards, names, abstract, tcodes, fcards, attrs, trees]):
                return res
    return res


ALPHA = ['a', 'Z', '1', '_', ' ', '\t', "'", '-', '#', '(', 'ä', 'é', '€', '\x00', '/', '*', '!', '&', '|', '=', '>', '[', '{', ',']


def batch_names(lo, hi):
    """native sweep of the name alphabet through the real files: every string of length <= 2 over the
    class-representative alphabet, the reserved words, every ASTOperation name and the hostile list."""
    from flamapy.core.models.ast import ASTOperation
    cand = list(ALPHA) + [a + b for a in ALPHA for b in ALPHA]
    cand += list(uvltok.RESERVED) + [o.value for o in ASTOperation] + [o.value.lower() for o in ASTOperation]
    cand += [w for w in rt.WEIRD_NAMES]
    cand += ['x AND y', 'NOT x', 'a OR', 'IMPLIES', 'x REQUIRES', 'sum(a)', 'a => b', '[1..2]', 'true false', "it's", "'", "''", "'a", "a'"]
    cand = [c for c in dict.fromkeys(cand) if not any(ch in c for ch in '".\r\n')]
    res = {'instances': 0, 'nontrivial': 0, 'violations': [], 'native_runs': 0}
    shape = (((), ()), ((),))
    for w in cand[lo:hi]:
        for mode in range(3):
            names = ['F0', 'F1', 'F2', 'F3']
            attrs = [(2, 'cost', 1)]
            trees = [('IMPLIES', 'F1', 'F2')]
            if mode == 0:
                names[1] = w
                trees = [('IMPLIES', w, 'F2'), ('OR', ('NOT', w), ('AND', 'F3', w))]
            elif mode == 1:
                names[0] = w
                trees = [('EXCLUDES', 'F2', w)]
            else:
                if w == 'abstract':
                    continue
                attrs = [(2, w, 1), (1, w, 'v')]
                trees = [('GREATER', ('SUM', w, 'F2'), 0)]
            res['instances'] += 1
            res['native_runs'] += 1
            res['nontrivial'] += 1
            args = [shape, [(1, 2), (0, 1)], names, None, None, None, attrs, trees]
            bad = replay_file(*args)
            if bad:
                res['violations'].append({'label': 'uvl-name', 'detail': bad[0], 'replay_func': 'replay_file', 'replay_args': args})
                if len(res['violations']) >= 5:
                    return res
    if lo == 0:
        # distinct names that coincide under blank removal / trimming / case folding / separator replacement ...
        def expressible(w):
            return not any(ch in w for ch in '".\r\n') and not (len(w) >= 2 and w[0] == "'" and w[-1] == "'")
        for names in rt.confusable_cases(4, ok=expressible):
            for cards, trees in (([(1, 2), (0, 1)], [('IMPLIES', names[1], names[2]), ('OR', ('NOT', names[0]), ('AND', names[3], names[1]))]),
                                 ([(2, 2), (1, 1)], [('EXCLUDES', names[2], names[1])])):
                args = [shape, cards, names, None, None, None, [(2, names[0], 1), (1, names[1], 'v')], trees]
                res['instances'] += 1
                res['native_runs'] += 1
                res['nontrivial'] += 1
                bad = replay_file(*args)
                if bad:
                    res['violations'].append({'label': 'uvl-name', 'detail': bad[0], 'replay_func': 'replay_file', 'replay_args': args})
                    if len(res['violations']) >= 5:
                        return res
    res['sample'] = {'names': cand[lo:hi][:5]}
    return res


UVL_OPS = ['AND', 'OR', 'IMPLIES', 'EQUIVALENCE', 'REQUIRES', 'EXCLUDES']


def cycle_tree(tree):
    tree = totuple(tree)
    args = [(((), ()), ((),)), [(1, 2), (0, 1)], ['F3', 'F0', 'F1', 'F2'], None, None, None, None, [tree]]
    return replay_file(*args)


def batch_trees(lo, hi, full):
    return rt.ctc_tree_batch(__name__, 'cycle_tree', UVL_OPS, lo, hi, full, 'uvl-constraint-roundtrip', names=(['F0', 'F1', 'F2'] if full else ['F0', 'F1']))


def batch_lexer_contract(lo, hi):
    """validation of the lexer contract predicates against the installed lexer (not a property check:
    a disagreement is a harness error)."""
    cand = list(ALPHA) + [a + b for a in ALPHA for b in ALPHA] + list(uvltok.RESERVED)
    cand += ['"' + a + b + '"' for a in ALPHA for b in ALPHA] + ["'" + a + "'" for a in ALPHA] + ['ab_1', 'a#', "a'b", 'Aä', 'a;']
    cand = [c for c in dict.fromkeys(cand) if '\n' not in c and '\r' not in c]
    res = {'instances': 0, 'nontrivial': 0, 'violations': [], 'native_runs': 0}
    for piece in cand[lo:hi]:
        kinds, errs = uvltok.lex_kinds(piece)
        real_id = (not errs and len(kinds) == 1 and kinds[0][0] in ('ID_STRICT', 'ID_NOT_STRICT') and kinds[0][1] == piece)
        real_str = (not errs and len(kinds) == 1 and kinds[0][0] == 'STRING' and kinds[0][1] == piece)
        res['instances'] += 1
        res['native_runs'] += 1
        if piece.strip() != piece or ' ' in piece and not piece.startswith(('"', "'")):
            continue     # pieces with blanks are never emitted unquoted
        if uvltok.lexes_as_identifier(piece) != real_id or uvltok.is_string_token(piece) != real_str:
            raise RuntimeError('lexer contract disagrees with the installed lexer on %r: kinds %r errors %r' % (piece, kinds, errs))
        res['nontrivial'] += 1
    res['sample'] = {'pieces': cand[lo:hi][:6]}
    return res


def conditions(tier, seed):
    conds = []
    N = 4 if tier == 'quick' else 5
    T = 90 if tier == 'quick' else 300
    L = 3 if tier == 'quick' else 4
    imp0 = 'from fmverif.props import c01 as P\n'
    shapes = [(si, s) for si, s in indexed_shapes(N, 2)]
    for si, shape in shapes:
        n = R.n_features(shape)
        rels = R.relations_of(shape)
        imp = imp0 + 'SHAPE_%d = %r\n' % (si, shape)
        params = ', '.join('a%d: int, b%d: int' % (i, i) for i in range(len(rels))) + ', fa: int, fb: int'
        pre = []
        for i, (p, cs) in enumerate(rels):
            k = len(cs)
            pre.append('0 <= a%d <= %d and ((a%d <= b%d <= %d and b%d >= 1) or b%d == -1)' % (i, k, i, i, k, i, i))
        pre.append('fa == 1 and fb == 1')
        cexpr = '[' + ', '.join('(a%d, b%d)' % (i, i) for i in range(len(rels))) + ']'
        fpos = (si + seed) % n
        dc = tuple(x for c in R.default_cards(shape) for x in c)
        conds.append(Cond(name='c01_cards_%d' % si, imports=imp, params=params, pre=pre,
                          body='P.rt_cards(SHAPE_%d, %s, %d, fa, fb)' % (si, cexpr, fpos), timeout=T,
                          aspect='writer leaf -> CARDINALITY/keyword tokens on the real parse tree -> reader; whole writer text tied to the pieces',
                          sample={'shape': R.shape_str(shape), 'symbolic': 'all group cardinalities incl. [a..*], one feature cardinality'},
                          validate=[dc + (1, 1), dc + (0, -1), tuple(x for (p, cs) in rels for x in (0, -1)) + (2, 5)]))
        conds.append(Cond(name='c01_fcard_%d' % si, imports=imp, params='fa: int, fb: int',
                          pre=['0 <= fa <= %d and (fa <= fb <= %d or fb == -1) and (fb >= 1 or fb == -1)' % ((9, 9) if tier == 'quick' else (20, 20))],
                          body='P.rt_cards(SHAPE_%d, %r, %d, fa, fb)' % (si, R.default_cards(shape), fpos), timeout=T,
                          aspect='feature cardinality [a..b] / [a..*] -> CARDINALITY token -> reader',
                          sample={'shape': R.shape_str(shape), 'symbolic': 'feature cardinality of feature %d' % fpos}, validate=[(0, -1), (2, 5), (1, 1)]))
        pos = (si + seed) % n
        if tier == 'quick' and n > 3:
            continue
        for in_ctc in ((0, 1) if (tier != 'quick' or n == 3) else (0,)):
            conds.append(Cond(name='c01_name_%d_%d' % (si, in_ctc), imports=imp, params='name: str',
                              pre=['1 <= len(name) <= %d' % L, 'all(len(name) != len(o) or name != o for o in %r)' % (['F%d' % i for i in range(n)] + [PLACE],),
                                   'all(c not in name for c in [chr(34), ".", chr(10), chr(13)])'],
                              body='P.rt_name(SHAPE_%d, %d, name, %d)' % (si, pos, in_ctc), timeout=T,
                              aspect='safename -> identifier token (lexer contract) -> reader' + (' incl. constraints and a typed feature' if in_ctc else ''),
                              sample={'shape': R.shape_str(shape), 'symbolic': 'name of feature %d (any character a quoted identifier can carry)' % pos},
                              validate=[('Zz',), ('a b',), ('1x',), ('or',), ('é',)]))
    shape = (((), ()),)
    imp = imp0 + 'SHAPE_A = %r\n' % (shape,)
    conds.append(Cond(name='c01_attrname', imports=imp, params='aname: str',
                      pre=['1 <= len(aname) <= %d' % L, 'all(c not in aname for c in [chr(34), ".", chr(10), chr(13)])', 'aname != "other" and aname != "abstract" and aname != "Pqzx"'],
                      body='P.rt_attrname(SHAPE_A, aname)', timeout=T, aspect='attribute name -> identifier token -> reader',
                      sample={'symbolic': 'attribute name'}, validate=[('a',), ('a b',), ('or',)]))
    for kind in range(5):
        conds.append(Cond(name='c01_value_%d' % kind, imports=imp0, params='ival: int, sval: str, bval: bool, jval: int',
                          pre=['-9 <= ival <= 99 and -9 <= jval <= 9', '1 <= len(sval) <= %d' % L, 'all(c not in sval for c in [chr(39), ".", chr(10), chr(13)])'],
                          body='P.rt_value(%d, ival, sval, bval, jval)' % kind, timeout=T,
                          aspect='attribute value kind %d (int/str/bool/list/map) -> value tokens -> process_value' % kind,
                          sample={'kind': kind, 'symbolic': 'int(s), str, bool'}, validate=[(7, 'x', True, 2), (-3, 'a b', False, 0)]))
    return conds


def batches(tier, seed):
    N = 4 if tier == 'quick' else 5
    total = len(R.shapes(N))
    step = total // 10 + 1
    b = [('batch_files', [N, lo, lo + step, seed + lo, 4 if tier == 'quick' else 10]) for lo in range(0, total, step)]
    nn = 24 + 24 * 24 + 120
    st = nn // 10 + 1
    b += [('batch_names', [lo, lo + st]) for lo in range(0, nn, st)]
    full = tier != 'quick'
    nt = len(rt.ctc_family(UVL_OPS, ['F0', 'F1', 'F2'] if full else ['F0', 'F1'], full))
    st = nt // 14 + 1
    b += [('batch_trees', [lo, lo + st, full]) for lo in range(0, nt, st)]
    b += [('batch_lexer_contract', [lo, lo + 400]) for lo in range(0, 1400, 400)]
    b.append(('batch_dups', []))
    b += [('batch_impl_pairs', [lo, lo + 324]) for lo in range(0, 1296, 324)]
    b.append(('batch_typed_values', [seed]))
    return b


def _noop():
    pass


def info(tier):
    return {
        'assumptions': ['UVL fragment: names without " . CR LF; attribute name not "abstract" (that key is the flag in UVL); values None/bool/int/plain-decimal float/non-empty str without apostrophe or dot/list/nested map; constraints without xor',
                        'token substitution: the real lexer + parser run on a concrete template, payload tokens receive symbolic text, the real reader runs on the tree; the lexer is a contract generated by probing the installed lexer and validated against it (batch_lexer_contract)',
                        'one payload category per condition (cards | one name | one value); rendered integers are bounded (feature cardinality 0..9, values -9..99)',
                        'n >= 1 cycles: one-step round trip from an arbitrary fragment model + byte-identical rewrite (induction on paper); cycles 2 and 3 run natively through real files for every enumerated instance'],
        'coverage': {'functions_encoded': ['UVLWriter.transform/read_features/read_attributes/serialize_relation/read_constraints/serialize_constraint/_serialize_node', 'uvl_writer.safename/safe_simple_name/is_plain_identifier/serialize_value',
                                           'UVLReader.transform/process_feature/process_group/parse_cardinality/_check_feature_cardinality/_check_feature_type/_check_attributes/process_attributes/process_value/process_constraints/process_literal/...'],
                     'bounds': {'shapes': 'N<=%d' % (4 if tier == 'quick' else 5), 'name_len': 3 if tier == 'quick' else 4},
                     'stubs': ['UVL lexer (contract: piece lexed as one token of the class, validated natively)', 'file write / FileStream (exercised for real in the native batches and replays)']},
    }


def replay_dups(k):
    """near-duplicate constraints (repeated literally / differing by letter case of a name) through the real files."""
    m = rt.dup_models()[k]
    try:
        return ['%s | constraints %r' % (b[:400], rt.DUP_CTC_SETS[k]) for b in uvlio.file_roundtrip(m)]
    except Exception as exc:
        return ['round trip raises %s: %s (constraints %r)' % (type(exc).__name__, exc, rt.DUP_CTC_SETS[k])]


def batch_impl_pairs(lo, hi):
    return rt.impl_pairs_batch(__name__, lo, hi, 'uvl-constraint-roundtrip')


def batch_dups():
    return rt.dup_batch(__name__, 'uvl-duplicate-constraints')
