"""C02 - every reader returns a well-formed feature tree with usable constraints."""
from __future__ import annotations

import os
import random

from flamapy.core.models.ast import ASTOperation
from flamapy.metamodels.fm_metamodel.models import FeatureModel
from flamapy.metamodels.fm_metamodel.transformations import (
    UVLWriter, UVLReader, AFMWriter, AFMReader, JSONWriter, JSONReader, GlencoeWriter, GlencoeReader,
    FeatureIDEWriter, FeatureIDEReader, XMLReader)
from flamapy.metamodels.fm_metamodel.transformations.json_writer import to_json
from flamapy.metamodels.fm_metamodel.transformations.glencoe_writer import _to_json as glencoe_to_json
from flamapy.metamodels.fm_metamodel.transformations.featureide_writer import _to_featureidexml

from .. import refsem as R
from ..known import known
from ..runner import Cond
from .common import cards_params, indexed_shapes, totuple
from . import rt, c04, c05, c06, c07, c08, c09, uvlio, afmio

ID = 'C02'
LEVEL = 'model_checking'
UNARY = {'NOT', 'LEN', 'FLOOR', 'CEIL'}
ONE_OR_TWO = {'SUM', 'AVG'}


def wellformed(m, expect_names=None) -> list:
    """structural invariants, walked over attributes only."""
    out = []
    root = m.root
    if root is None:
        return ['no root']
    if root.parent is not None:
        out.append('root has a parent')
    seen = {}
    stack = [root]
    order = []
    while stack:
        f = stack.pop()
        if id(f) in seen:
            out.append('feature %r reachable twice' % f.name)
            continue
        seen[id(f)] = f
        order.append(f)
        for r in f.relations:
            if not r.children:
                out.append('empty relation under %r' % f.name)
            if r.parent is not f:
                out.append('relation under %r points back to %r' % (f.name, getattr(r.parent, 'name', None)))
            for c in r.children:
                if c.parent is not f:
                    out.append('child %r of %r records parent %r' % (c.name, f.name, getattr(c.parent, 'name', None)))
                stack.append(c)
        for a in f.attributes:
            if a.parent is not f:
                out.append('attribute %r of %r points back to %r' % (a.name, f.name, getattr(a.parent, 'name', None)))
    names = [f.name for f in order]
    if len(set(names)) != len(names):
        out.append('duplicate feature names %r' % names)
    for ci, c in enumerate(m.ctcs):
        leaves = []
        bad = _ast_form(c.ast.root, leaves)
        out += ['constraint %d: %s' % (ci, b) for b in bad]
        if not bad:
            try:
                got = sorted(c.get_features())
            except Exception as exc:
                out.append('constraint %d: get_features raises %s' % (ci, type(exc).__name__))
                continue
            want = sorted(set(x for x in leaves if isinstance(x, str) and not x.startswith("'")))
            ops = _ops(c.ast.root)
            if not any(o in ('SUM', 'AVG', 'LEN', 'FLOOR', 'CEIL') for o in ops) and got != want:
                out.append('constraint %d: get_features() %r != names written %r' % (ci, got, want))
            if all(o in ('NOT', 'AND', 'OR', 'XOR', 'IMPLIES', 'EQUIVALENCE', 'REQUIRES', 'EXCLUDES') for o in ops):
                stray = [x for x in want if x not in names]
                if stray:
                    out.append('constraint %d names %r, which are not features of the model it belongs to' % (ci, stray))
            if expect_names is not None and ci < len(expect_names) and not any(o in ('SUM', 'AVG', 'LEN', 'FLOOR', 'CEIL') for o in ops):
                if got != sorted(expect_names[ci]):
                    out.append('constraint %d: get_features() %r, the document names the features %r' % (ci, got, sorted(expect_names[ci])))
    return out


def _ops(node):
    if node is None or not isinstance(node.data, ASTOperation):
        return []
    return [node.data.name] + _ops(node.left) + _ops(node.right)


def _ast_form(node, leaves) -> list:
    if node is None:
        return ['missing node']
    d = node.data
    if not isinstance(d, ASTOperation):
        if node.left is not None or node.right is not None:
            return ['leaf %r with children' % (d,)]
        leaves.append(d)
        return []
    if d.name in UNARY:
        if node.left is None:
            return ['unary %s without its operand on the left' % d.name]
        if node.right is not None:
            return ['unary %s with a right operand' % d.name]
        return _ast_form(node.left, leaves)
    if d.name in ONE_OR_TWO:
        if node.left is None:
            return ['%s without first operand' % d.name]
        return _ast_form(node.left, leaves) + (_ast_form(node.right, leaves) if node.right is not None else [])
    if node.left is None or node.right is None:
        return ['binary %s with a missing operand' % d.name]
    return _ast_form(node.left, leaves) + _ast_form(node.right, leaves)


def wf(m) -> bool:
    return not wellformed(m)


# -- E1: one function per reader, cardinalities symbolic --------------------------------------------

def wf_json(shape, cards, code) -> bool:
    m = c05.make(shape, cards, ctc_code=code, attrs=[(0, 'cost', 3)], abstract=[i % 2 == 0 for i in range(R.n_features(shape))])
    return wf(rt.json_transform(JSONReader, to_json(m)))


# JSON reference documents: written from the format as the reader defines it (n-ary AND / OR / XOR terms,
# relation types, attributes with and without value), not by the library's writer
JSON_REL = {'mandatory': 'MANDATORY', 'optional': 'OPTIONAL', 'alternative': 'XOR', 'or': 'OR', 'mutex': 'MUTEX', 'cardinality': 'CARDINALITY', 'none': 'CARDINALITY'}


def json_emit(shape, cards, names, abstract, trees, opts):
    rels = R.relations_of(shape)
    rbp = R.rels_by_parent(shape)

    def term(t):
        if not isinstance(t, tuple):
            return {'type': 'FEATURE', 'operands': [t]}
        return {'type': t[0], 'operands': [term(x) for x in t[1:]]}

    def feat(i):
        node = {'name': names[i], 'abstract': ('True' if abstract[i] else 'False') if opts.get('abstract_text') else bool(abstract[i])}
        rl = []
        for ri in rbp[i]:
            mn, mx = cards[ri]
            cs = rels[ri][1]
            kind = R.rel_class(mn, mx, len(cs))
            if opts.get('all_cardinality'):
                kind = 'cardinality'
            r = {'type': JSON_REL[kind], 'children': [feat(c) for c in cs]}
            if kind in ('cardinality', 'none') or opts.get('cards_everywhere'):
                r['card_min'], r['card_max'] = mn, mx
            rl.append(r)
        if rl or not opts.get('omit_empty'):
            node['relations'] = rl
        if i == 0:
            node['attributes'] = [{'name': 'cost', 'value': 3}, {'name': 'flag'}]
        return node
    return {'features': feat(0), 'constraints': [{'name': 'k%d' % i, 'ast': term(t)} for i, t in enumerate(trees)]}


def json_ref_trees(n, code):
    """n-ary AND / OR / XOR terms over distinct operands, arity 1..min(n, 6), top level and nested."""
    if n < 2:
        return []
    sets = c09.nary_sets(n)[1:]
    trees = list(sets[code % len(sets)])
    nm = ['F%d' % i for i in range(n)]
    if n >= 3:
        trees.append(('XOR',) + tuple(nm[:min(n, 5)]))
        trees.append(('REQUIRES', ('XOR',) + tuple(nm[1:min(n, 4)]), ('NOT', ('OR',) + tuple(nm[:3]))))
    return trees


def _fold(t):
    """meaning of an n-ary AND / OR / XOR term: left fold; a single operand stands for itself."""
    if not isinstance(t, tuple):
        return t
    args = [_fold(x) for x in t[1:]]
    if t[0] in ('AND', 'OR', 'XOR'):
        acc = args[0]
        for a in args[1:]:
            acc = (t[0], acc, a)
        return acc
    return (t[0],) + tuple(args)


def json_ref_problems(shape, cards, code, opts) -> list:
    n = R.n_features(shape)
    names = ['F%d' % i for i in range(n)]
    trees = json_ref_trees(n, code)
    doc = json_emit(shape, cards, names, [i % 2 == 1 for i in range(n)], trees, opts)
    got = rt.json_transform(JSONReader, doc)
    out = wellformed(got, expect_names=[R.tree_names(t) for t in trees])
    want = R.build(shape, cards, names=names, abstract=[i % 2 == 1 for i in range(n)], ctcs=[R.ctc('k%d' % i, _fold(t)) for i, t in enumerate(trees)])
    if rt.tree_snapshot(got, attrs=False, types=False) != rt.tree_snapshot(want, attrs=False, types=False):
        out.append('tree read from the JSON reference document differs from the tree it describes')
    if not rt.ctcs_equivalent(want, got, same_names=True):
        out.append('a constraint read from the JSON reference document is not equivalent to the n-ary term written (left fold)')
    return out


def wf_json_ref(shape, cards, code, oa, ob, oc) -> bool:
    return not json_ref_problems(shape, cards, code, {'abstract_text': oa, 'cards_everywhere': ob, 'omit_empty': oc})


def replay_json_ref(shape, cards, code, opts):
    shape = totuple(shape)
    cards = [tuple(c) for c in cards]
    try:
        bad = json_ref_problems(shape, cards, code, opts)
    except Exception as exc:
        bad = ['JSON reader raises %s: %s' % (type(exc).__name__, exc)]
    return ['%s | shape %s cards %r constraints %r opts %r' % (b, R.shape_str(shape), cards, json_ref_trees(R.n_features(shape), code), opts) for b in bad]


def batch_json_ref(max_n, seed):
    import random as _r
    rnd = _r.Random(seed)
    res = {'instances': 0, 'nontrivial': 0, 'violations': [], 'native_runs': 0}
    for shape in R.shapes(max_n):
        n = R.n_features(shape)
        allc = list(R.all_cards(shape))
        for cards in (allc if len(allc) <= 6 else rnd.sample(allc, 6)):
            for code in range(len(c09.nary_sets(n)) - 1 if n >= 2 else 1):
                opts = {k: rnd.random() < 0.5 for k in ('abstract_text', 'cards_everywhere', 'omit_empty', 'all_cardinality')}
                args = [shape, cards, code, opts]
                res['instances'] += 1
                res['native_runs'] += 1
                res['nontrivial'] += 1
                bad = replay_json_ref(*args)
                if bad:
                    res['violations'].append({'label': 'json-reference-document', 'detail': bad[0][:600], 'replay_func': 'replay_json_ref', 'replay_args': args})
                    if len(res['violations']) >= 4:
                        return res
                res['sample'] = {'shape': R.shape_str(shape), 'cards': cards, 'constraints': json_ref_trees(n, code)}
    return res


def replay_afm_ref(shape, cards, code, block):
    """AFM reference document (own emitter; optionally a feature-scoped block among the plain constraints) read by the
    real AFMReader: well-formed tree, and every plain constraint names exactly the features written in it."""
    import os
    shape = totuple(shape)
    cards = [tuple(c) for c in cards]
    n = R.n_features(shape)
    names = ['A', 'B', 'C', 'D', 'E', 'F', 'G'][:n]
    trees = list(c09.AFM_CTCS[code]) if n >= 3 else []
    expect = [R.tree_names(t) for t in trees]
    opts = {}
    if block and n >= 3:
        pos = block % (len(trees) + 1)
        opts['block'] = (pos, names[1], ('IMPLIES', 'B', 'C'))
        expect.insert(pos, None)
    text = c09.afm_emit(shape, cards, names, opts, trees)
    try:
        with rt.TempDir() as d:
            p = os.path.join(d, 'm.afm')
            with open(p, 'w', encoding='utf-8') as f:
                f.write(text)
            got = AFMReader(p).transform()
    except Exception as exc:
        return ['AFM reader raises %s: %s | text %r' % (type(exc).__name__, exc, text)]
    out = []
    if len(got.ctcs) != len(expect):
        out.append('%d constraints read, the document has %d' % (len(got.ctcs), len(expect)))
    for ci, c in enumerate(got.ctcs[:len(expect)]):
        if expect[ci] is None:
            continue       # the block: names are qualified with the block's feature, not checked here
        if sorted(c.get_features()) != sorted(expect[ci]):
            out.append('constraint %d: get_features() %r, the document names %r' % (ci, sorted(c.get_features()), sorted(expect[ci])))
    plain = type(got)(got.root, [c for ci, c in enumerate(got.ctcs) if ci >= len(expect) or expect[ci] is not None])
    out += wellformed(plain)
    return ['%s | text %r' % (b, text) for b in out]


def batch_afm_ref(max_n, seed):
    import random as _r
    rnd = _r.Random(seed)
    res = {'instances': 0, 'nontrivial': 0, 'violations': [], 'native_runs': 0}
    for shape in R.shapes(max_n, 3):
        allc = c06.fragment_cards(shape)
        for cards in (allc if len(allc) <= 4 else rnd.sample(allc, 4)):
            for code in range(len(c09.AFM_CTCS)):
                for block in (0, 1 + rnd.randrange(6)):
                    args = [shape, cards, code, block]
                    res['instances'] += 1
                    res['native_runs'] += 1
                    res['nontrivial'] += 1
                    bad = replay_afm_ref(*args)
                    if bad:
                        res['violations'].append({'label': 'afm-reference-document', 'detail': bad[0][:600], 'replay_func': 'replay_afm_ref', 'replay_args': args})
                        if len(res['violations']) >= 4:
                            return res
                    res['sample'] = {'shape': R.shape_str(shape), 'cards': cards, 'constraints': c09.AFM_CTCS[code], 'block': block}
    return res


def wf_glencoe(shape, cards, code) -> bool:
    m = c08.make(shape, cards, ctc_code=code)
    d = glencoe_to_json(m)
    rd = GlencoeReader('unused')
    return wf(rt.json_transform(GlencoeReader, d))


def wf_fide(shape, cards, code) -> bool:
    m = c07.make(shape, cards, ctc_code=code)
    return wf(c07.read_tree(_to_featureidexml(m)))


def wf_fide_ref(shape, cards, code) -> bool:
    n = R.n_features(shape)
    names = ['F%d' % i for i in range(n)]
    trees = [c09.c05_rename(t, names) for t in c09.fide_ctcs(n)[code % len(c09.fide_ctcs(n))]] if n >= 2 else []
    doc = c09.fide_emit(shape, cards, names, [False] * n, {'mandatory_false': 1, 'graphics': 1, 'description': 1, 'group_member_mandatory': 1}, trees)
    return wf(c09.fide_read(doc))


def wf_glencoe_ref(shape, cards, code) -> bool:
    n = R.n_features(shape)
    names = ['F%d' % i for i in range(n)]
    trees = c09.gl_ctcs(n, code)
    d = c09.glencoe_emit(shape, cards, names, {'ids_differ': 1, 'reverse_children': 1}, trees)
    rd = GlencoeReader('unused')
    return wf(rt.json_transform(GlencoeReader, d))


def wf_fama(shape, cards, oi) -> bool:
    n = R.n_features(shape)
    names = ['F%d' % i for i in range(n)]
    ctcs = [('requires', n - 1, 0), ('excludes', 0, n - 1)] if n >= 2 else []
    opts = [{}, {'card_last': 1, 'upper': 1}, {'single_as_set': 1}][oi]
    return wf(c09.fama_read(c09.fama_emit(shape, cards, names, opts, ctcs)))


def wf_uvl(shape, cards, short, csyn) -> bool:
    got, want = c04.cards_doc(shape, cards, short, csyn)
    return wf(got)


def wf_afm(shape, cards) -> bool:
    r = c06.cards_doc(shape, cards)
    return r is not None and wf(r[1])


# -- native: real files, constraint families ---------------------------------------------------------

def file_models(shape, cards, code):
    """[(label, model read from a real file)] for all six readers."""
    out = []
    n = R.n_features(shape)
    with rt.TempDir() as d:
        def path(x):
            return os.path.join(d, x)
        m = c05.make(shape, cards, ctc_code=code % len(c05.CTCS), attrs=[(0, 'cost', 3)])
        JSONWriter(path('a.json'), m).transform()
        out.append(('json', JSONReader(path('a.json')).transform()))
        if c08.in_fragment_shape(shape) and cards in c08.fragment_cards(shape):
            GlencoeWriter(path('a.gfm.json'), c08.make(shape, cards, ctc_code=code % len(c05.CTCS))).transform()
            out.append(('glencoe', GlencoeReader(path('a.gfm.json')).transform()))
        if c07.in_fragment_shape(shape) and cards in c07.fragment_cards(shape):
            FeatureIDEWriter(path('a.xml'), c07.make(shape, cards, ctc_code=code % len(c07.CTCS))).transform()
            out.append(('featureide', FeatureIDEReader(path('a.xml')).transform()))
        trees = c04.CTCS[code % len(c04.CTCS)] if n >= 3 else []
        mu = uvlio.make(shape, cards, trees=trees, attrs=[(0, 'cost', 3), (n - 1, 'cost', 1)])
        UVLWriter(path('a.uvl'), mu).transform()
        from . import c18
        out.append(('uvl', UVLReader(path('a.uvl')).transform(), [c18.names_of(t) for t in trees]))
        # the same model as a document of the reference emitter (string literals, quoted identifiers, ...)
        if n >= 3:
            names4, abstract4, types4, fcards4, attrs4, trees4 = c04.payload(shape, code % len(c04.CTCS))
            with open(path('ref.uvl'), 'w', encoding='utf-8') as fh:
                fh.write(c04.emit(shape, cards, names4, abstract4, types4, fcards4, attrs4, trees4, {'quote': code % 2 == 0, 'parens': code % 3 == 0}))
            out.append(('uvl-ref', UVLReader(path('ref.uvl')).transform(), [c18.names_of(t) for t in trees4]))
        if cards in c06.fragment_cards(shape) and n >= 2:
            names = c06.NAMES[:n]
            at = [(0, 'cost', ('range', 0, 5), '1', '0')]
            tr = [c09.c05_rename(t, names) for t in c07.CTCS[code % len(c07.CTCS)] if isinstance(t, tuple)]
            AFMWriter(path('a.afm'), afmio.make(shape, cards, names=names, attrs=at, trees=tr)).transform()
            out.append(('afm', AFMReader(path('a.afm')).transform()))
        if c08.in_fragment_shape(shape) and cards in c09.glencoe_fragment_cards(shape):
            import json as _json
            with open(path('ref.gfm.json'), 'w', encoding='utf-8') as fh:
                _json.dump(c09.glencoe_emit(shape, cards, ['F%d' % i for i in range(n)], {'ids_differ': 1}, c09.gl_ctcs(n, code)), fh)
            out.append(('glencoe-ref', GlencoeReader(path('ref.gfm.json')).transform()))
        names = ['F%d' % i for i in range(n)]
        ctcs = [('requires', n - 1, 0)] if n >= 2 else []
        c09.fama_emit(shape, cards, names, {'card_last': code % 2}, ctcs).write(path('f.xml'), encoding='UTF-8', xml_declaration=True)
        out.append(('fama', XMLReader(path('f.xml')).transform()))
    return out


def replay_files(shape, cards, code):
    shape = totuple(shape)
    cards = [tuple(c) for c in cards]
    try:
        models = file_models(shape, cards, code)
    except Exception as exc:
        return ['reader/writer raises %s: %s (shape %s cards %r)' % (type(exc).__name__, exc, R.shape_str(shape), cards)]
    out = []
    for entry in models:
        label, m = entry[0], entry[1]
        for b in wellformed(m, entry[2] if len(entry) > 2 else None):
            out.append('%s reader: %s (shape %s cards %r code %d)' % (label, b, R.shape_str(shape), cards, code))
    return out


NAME_SETS = [['Root', '64', '1e3', 'Inf'], ['nan', '8', '17', '0'], ['-1', '1.5', '+2', '1_0'], ['True', 'False', 'None', 'null'],
             ['lib.core', 'lib', 'a.b.c', 'org'], ['0x10', '1e', 'e1', 'infinity'],
             # qualified names whose parts need quoting (blank, leading digit, reserved word) next to parts that do not
             ['Root', 'a b.c d', 'x.y', 'pay gate.card rd'], ['R', 'a.b c', '1x.y', 'q'], ['pkg.features', 'or.and', 'x.1', 'a.b.c d.e']]


def replay_names(names):
    """models whose feature names look like numbers, literals, qualified names ... written by each format's writer and read
    back: every constraint names exactly the features written in it (and the tree is well formed)."""
    shape = (((), ()), ((),))
    trees = [('IMPLIES', names[1], names[2]), ('OR', ('NOT', names[3]), names[1]), ('EXCLUDES', names[0], names[3])]
    expect = [R.tree_names(t) for t in trees]
    out = []

    def check(label, fn):
        try:
            got = fn()
        except Exception as exc:
            out.append('%s: raises %s: %s (names %r)' % (label, type(exc).__name__, exc, names))
            return
        for b in wellformed(got, expect):
            out.append('%s reader: %s (names %r)' % (label, b, names))
    with rt.TempDir() as d:
        def path(x):
            return os.path.join(d, x)
        m = lambda cards: R.build(shape, cards, names=names, ctcs=[R.ctc('c%d' % i, t) for i, t in enumerate(trees)])

        def via_json():
            JSONWriter(path('a.json'), m([(1, 2), (0, 1)])).transform()
            return JSONReader(path('a.json')).transform()

        def via_glencoe():
            GlencoeWriter(path('a.gfm.json'), m([(1, 2), (1, 1)])).transform()
            return GlencoeReader(path('a.gfm.json')).transform()

        def via_fide():
            FeatureIDEWriter(path('a.xml'), R.build((((),), ((),), ((),)), [(1, 1), (0, 1), (0, 1)], names=names, ctcs=[R.ctc('c%d' % i, t) for i, t in enumerate(trees)])).transform()
            return FeatureIDEReader(path('a.xml')).transform()

        def via_uvl():
            UVLWriter(path('a.uvl'), m([(1, 2), (0, 1)])).transform()
            return UVLReader(path('a.uvl')).transform()

        def via_fama():
            c09.fama_emit(shape, [(1, 2), (0, 1)], names, {}, [('requires', 1, 2), ('excludes', 0, 3)]).write(path('f.xml'), encoding='UTF-8', xml_declaration=True)
            return XMLReader(path('f.xml')).transform()
        check('json', via_json)
        check('glencoe', via_glencoe)
        xmlable = all(c07.xml_ok(x) and '\t' not in x for x in names)      # attribute-value normalisation turns tabs into blanks
        if xmlable:
            check('featureide', via_fide)
        if (not any(ch in x for x in names for ch in '"\r\n') and all(part != '' for x in names for part in x.split('.'))
                and not any(len(part) >= 2 and part[0] == "'" and part[-1] == "'" for x in names for part in x.split('.'))):
            check('uvl', via_uvl)
        if xmlable:
            save = expect[:]
            expect[:] = [[names[1], names[2]], [names[0], names[3]]]
            check('fama', via_fama)
            expect[:] = save
    return out


def batch_names():
    res = {'instances': 0, 'nontrivial': 0, 'violations': [], 'native_runs': 0}
    # (a name that starts with an apostrophe is read as a string literal by Constraint.get_features: the library's convention, left out)
    for ns in NAME_SETS + [c[:4] for c in rt.confusable_cases(4, ok=lambda w: not w.startswith("'"))]:
        for names in (list(ns), list(reversed(ns))):
            res['instances'] += 1
            res['native_runs'] += 5
            res['nontrivial'] += 1
            bad = replay_names(names)
            if bad:
                res['violations'].append({'label': 'reader-names', 'detail': bad[0][:600], 'replay_func': 'replay_names', 'replay_args': [names]})
                if len(res['violations']) >= 4:
                    return res
    res['sample'] = {'names': NAME_SETS[0]}
    return res


def batch_files(max_n, lo, hi, seed):
    rnd = random.Random(seed)
    res = {'instances': 0, 'nontrivial': 0, 'violations': [], 'native_runs': 0}
    for shape in R.shapes(max_n)[lo:hi]:
        allc = list(R.all_cards(shape))
        for cards in (allc if len(allc) <= 10 else rnd.sample(allc, 10)):
            args = [shape, cards, rnd.randrange(20)]
            res['instances'] += 1
            res['native_runs'] += 6
            res['nontrivial'] += 1
            bad = replay_files(*args)
            if bad:
                res['violations'].append({'label': 'reader-wellformed', 'detail': bad[0], 'replay_func': 'replay_files', 'replay_args': args})
                if len(res['violations']) >= 4:
                    return res
            res['sample'] = {'shape': R.shape_str(shape), 'cards': cards}
    return res


def tree_all_readers(tree):
    """one constraint tree through every writer/reader pair that can carry it; well-formed ASTs and
    get_features() == names written."""
    tree = totuple(tree)
    out = []
    shape = (((), ()), ((),))
    cards = [(1, 2), (0, 1)]
    names = sorted(set(R.tree_names(tree)))
    ops = set(c09_ops(tree))

    def check(label, m):
        for b in wellformed(m):
            out.append('%s reader: %s for constraint %r' % (label, b, tree))
        for c in m.ctcs:
            if sorted(c.get_features()) != names and 'XOR' not in ops:
                out.append('%s reader: get_features %r != names written %r for %r' % (label, sorted(c.get_features()), names, tree))
    try:
        m = R.build(shape, cards, ctcs=[R.ctc('c0', tree)])
        check('json', JSONReader.parse_json(to_json(m)))
        d = glencoe_to_json(m)
        rd = GlencoeReader('unused')
        check('glencoe', rt.json_transform(GlencoeReader, d))
        if 'XOR' not in ops:
            check('featureide', c07.read_tree(_to_featureidexml(m)))
            from . import uvltok
            text = UVLWriter(None, m).transform()
            t, toks, errs = uvltok.parse_text(text)
            if errs:
                out.append('uvl: own output does not parse: %r' % errs[:1])
            else:
                check('uvl', uvltok.reader_on(t).transform())
            ren = {'F0': 'Aa', 'F1': 'Bb', 'F2': 'Cc', 'F3': 'Dd'}
            ma = afmio.make(shape, cards, names=['Aa', 'Bb', 'Cc', 'Dd'], trees=[_ren(tree, ren)])
            t, toks, errs = c06.parse_text(AFMWriter(None, ma).transform())
            if errs:
                out.append('afm: own output does not parse: %r' % errs[:1])
            else:
                mm = c06.reader_on(t).transform()
                for b in wellformed(mm):
                    out.append('afm reader: %s for constraint %r' % (b, tree))
    except Exception as exc:
        out.append('raises %s: %s for constraint %r' % (type(exc).__name__, exc, tree))
    return out


def _ren(t, mp):
    if isinstance(t, tuple):
        return (t[0],) + tuple(_ren(x, mp) for x in t[1:])
    return mp[t]


def c09_ops(t):
    if not isinstance(t, tuple):
        return []
    o = [t[0]]
    for x in t[1:]:
        o += c09_ops(x)
    return o


def batch_trees(lo, hi, full):
    return rt.ctc_tree_batch(__name__, 'tree_all_readers', ['AND', 'OR', 'XOR', 'IMPLIES', 'EQUIVALENCE', 'REQUIRES', 'EXCLUDES'], lo, hi, full,
                             'reader-constraint-form', names=['F0', 'F1'] if not full else ['F0', 'F1', 'F2'])


def conditions(tier, seed):
    conds = []
    N = 4 if tier == 'quick' else 5
    T = 60 if tier == 'quick' else 200
    imp0 = 'from fmverif.props import c02 as P\n'
    for si, shape in indexed_shapes(N, 2):
        n = R.n_features(shape)
        rels = R.relations_of(shape)
        imp = imp0 + 'SHAPE_%d = %r\n' % (si, shape)
        cp, cpre, cexpr = cards_params(shape)
        dc = tuple(x for c in R.default_cards(shape) for x in c)
        code = (si + seed) % 4

        def add(name, body, pre, val, aspect):
            conds.append(Cond(name='c02_%s_%d' % (name, si), imports=imp, params=cp, pre=pre, body=body, timeout=T, aspect=aspect,
                              sample={'shape': R.shape_str(shape), 'symbolic': 'all (min,max)', 'reader': name}, validate=val))
        add('json', 'P.wf_json(SHAPE_%d, %s, %d)' % (si, cexpr, code), cpre, [dc], 'JSON reader result is a well-formed tree (dict level)')
        conds.append(Cond(name='c02_jsonref_%d' % si, imports=imp, params=cp + ', oa: bool, ob: bool, oc: bool', pre=cpre,
                          body='P.wf_json_ref(SHAPE_%d, %s, %d, oa, ob, oc)' % (si, cexpr, si + seed), timeout=T,
                          aspect='JSON reader (real transform) on a reference document with n-ary AND / OR / XOR terms: well-formed, get_features == names written, equivalent to the left fold',
                          sample={'shape': R.shape_str(shape), 'symbolic': 'all (min,max), three surface Booleans', 'reader': 'json-reference'},
                          validate=[dc + (False, False, False), dc + (True, True, True)]))
        add('fama', 'P.wf_fama(SHAPE_%d, %s, %d)' % (si, cexpr, si % 3), cpre, [dc], 'FaMa XML reader result is a well-formed tree (Element level)')
        if c08.in_fragment_shape(shape):
            fc = c08.fragment_cards(shape)
            add('glencoe', 'P.wf_glencoe(SHAPE_%d, %s, %d)' % (si, cexpr, code), c08.fragment_pre(shape), [tuple(x for c in fc[0] for x in c)], 'Glencoe reader result is a well-formed tree (dict level)')
            add('glencoeref', 'P.wf_glencoe_ref(SHAPE_%d, %s, %d)' % (si, cexpr, code % len(c09.GL_CTCS)), c08.fragment_pre(shape), [tuple(x for c in fc[0] for x in c)], 'Glencoe reader on a reference document whose ids differ from the names')
        if c07.in_fragment_shape(shape):
            fc = c07.fragment_cards(shape)
            v = [tuple(x for c in fc[0] for x in c)]
            add('fide', 'P.wf_fide(SHAPE_%d, %s, %d)' % (si, cexpr, code % len(c07.CTCS)), c07.fragment_pre(shape), v, 'FeatureIDE reader on writer output')
            add('fideref', 'P.wf_fide_ref(SHAPE_%d, %s, %d)' % (si, cexpr, code % len(c09.FIDE_CTCS)), c07.fragment_pre(shape), v, 'FeatureIDE reader on reference document')
        fc = c06.fragment_cards(shape)
        add('afm', 'P.wf_afm(SHAPE_%d, %s)' % (si, cexpr), c06.fragment_pre(shape), [tuple(x for c in fc[0] for x in c)], 'AFM reader on token-substituted writer output')
        params = ', '.join('a%d: int, b%d: int' % (i, i) for i in range(len(rels))) + ', short: bool, csyn: bool'
        pre = ['0 <= a%d <= %d and ((a%d <= b%d <= %d and b%d >= 1) or b%d == -1)' % (i, len(cs), i, i, len(cs), i, i) for i, (p, cs) in enumerate(rels)]
        conds.append(Cond(name='c02_uvl_%d' % si, imports=imp, params=params, pre=pre, body='P.wf_uvl(SHAPE_%d, %s, short, csyn)' % (si, cexpr), timeout=T * 2,
                          aspect='UVL reader on token-substituted reference document', sample={'shape': R.shape_str(shape), 'symbolic': 'all cards', 'reader': 'uvl'},
                          validate=[dc + (False, False)]))
    return conds


def batches(tier, seed):
    N = 4 if tier == 'quick' else 5
    total = len(R.shapes(N))
    step = total // 8 + 1
    b = [('batch_files', [N, lo, lo + step, seed + lo]) for lo in range(0, total, step)]
    full = tier != 'quick'
    nt = len(rt.ctc_family(['AND', 'OR', 'XOR', 'IMPLIES', 'EQUIVALENCE', 'REQUIRES', 'EXCLUDES'], ['F0', 'F1'] if not full else ['F0', 'F1', 'F2'], full))
    st = nt // 14 + 1
    b += [('batch_trees', [lo, lo + st, full]) for lo in range(0, nt, st)]
    b.append(('batch_json_ref', [4 if tier == 'quick' else 5, seed]))
    b.append(('batch_afm_ref', [4 if tier == 'quick' else 5, seed]))
    b.append(('batch_names', []))
    return b


def info(tier):
    return {
        'assumptions': ['documents: output of the library writers on every enumerated model (symbolic cardinalities) and documents of the reference emitters of C04 / C09',
                        'invariants are walked over attributes (root.parent, child.parent, relation.parent, relation.children, attribute.parent, node.left/right), never through query methods',
                        'unary nodes: NOT, len, floor, ceil (operand on the left, no right operand); sum/avg have one or two operands',
                        'get_features() is compared with an independent walk of the tree, for constraints without aggregate functions'],
        'coverage': {'functions_encoded': ['JSONReader.parse_json', 'GlencoeReader._parse_tree/_parse_constraints', 'FeatureIDEReader._read_features/_read_constraints/_parse_rule', 'XMLReader.parse_feature/parse_relation/parse_ctc',
                                           'UVLReader.transform (token substitution)', 'AFMReader.transform (token substitution)', 'Feature.add_relation/add_attribute', 'Constraint.get_features'],
                     'bounds': {'shapes': 'N<=%d' % (4 if tier == 'quick' else 5), 'constraints': 'depth<=2 families through every reader'},
                     'stubs': ['file parsers (json / ElementTree / ANTLR lexers) as in C01, C05-C09']},
    }
