"""C03 - model queries agree with the feature tree they describe."""
from __future__ import annotations

import ast
import inspect
import itertools
import random
import textwrap

from flamapy.metamodels.fm_metamodel.models import (
    FeatureModel, Feature, Relation, Constraint, FeatureType, Cardinality)
from flamapy.metamodels.fm_metamodel.models import feature_model as FM

from .. import refsem as R
from ..known import known
from ..runner import Cond

ID = 'C03'
LEVEL = 'model_checking'
CLASSES = ['mandatory', 'optional', 'or', 'alternative', 'mutex', 'cardinality']
TYPES = [FeatureType.BOOLEAN, FeatureType.INTEGER, FeatureType.REAL, FeatureType.STRING]


def _classes_of(rel: Relation) -> list:
    flags = [rel.is_mandatory(), rel.is_optional(), rel.is_or(), rel.is_alternative(), rel.is_mutex(),
             rel.is_cardinal()]
    return [c for c, f in zip(CLASSES, flags) if f]


# ---------------------------------------------------------------------------------------------
# a. partition (E1: unbounded ints, symbolic number of children)


def partition(mn, mx, kids) -> bool:
    k = len(kids)
    parent = Feature('P')
    # the classification may only look at (min, max, number of children): the children list is used as is
    # (symbolic length, never iterated), a second relation has another parent and another list object
    rel = Relation(parent, kids, mn, mx)
    other = Relation(Feature('Q', is_abstract=True), kids[:], mn, mx)
    got = _classes_of(rel)
    want = R.rel_class(mn, mx, k)
    if rel.is_group() != (k > 1):
        return False
    if _classes_of(other) != got:
        return False
    if want == 'none':
        if got == []:
            return known('C03', 'relation-0-0-single-child')
        return False
    return got == [want]


def witness_rel00() -> bool:
    r = Relation(Feature('P'), [Feature('C')], 0, 0)
    return _classes_of(r) == []


# ---------------------------------------------------------------------------------------------
# a'. E3: translate the is_* methods from source into z3 and decide the partition


class _Py2Smt(ast.NodeVisitor):
    def __init__(self, z3, mn, mx, k, methods):
        self.z3, self.mn, self.mx, self.k, self.methods = z3, mn, mx, k, methods

    def tr(self, node):
        z3 = self.z3
        if isinstance(node, ast.BoolOp):
            vals = [self.tr(v) for v in node.values]
            return z3.And(vals) if isinstance(node.op, ast.And) else z3.Or(vals)
        if isinstance(node, ast.UnaryOp) and isinstance(node.op, ast.Not):
            return z3.Not(self.tr(node.operand))
        if isinstance(node, ast.Compare):
            items = [node.left] + list(node.comparators)
            out = []
            for op, l, r in zip(node.ops, items, items[1:]):
                a, b = self.tr(l), self.tr(r)
                out.append({ast.Eq: lambda: a == b, ast.NotEq: lambda: a != b, ast.Gt: lambda: a > b,
                            ast.GtE: lambda: a >= b, ast.Lt: lambda: a < b, ast.LtE: lambda: a <= b}[type(op)]())
            return z3.And(out) if len(out) > 1 else out[0]
        if isinstance(node, ast.Constant) and isinstance(node.value, (int, bool)):
            return z3.BoolVal(node.value) if isinstance(node.value, bool) else z3.IntVal(node.value)
        if isinstance(node, ast.Attribute) and isinstance(node.value, ast.Name) and node.value.id == 'self':
            if node.attr == 'card_min':
                return self.mn
            if node.attr == 'card_max':
                return self.mx
        if isinstance(node, ast.Call):
            f = node.func
            if isinstance(f, ast.Name) and f.id == 'len' and len(node.args) == 1:
                a = node.args[0]
                if isinstance(a, ast.Attribute) and a.attr == 'children' and isinstance(a.value, ast.Name) and a.value.id == 'self':
                    return self.k
            if isinstance(f, ast.Attribute) and isinstance(f.value, ast.Name) and f.value.id == 'self' and not node.args:
                return self.method(f.attr)
        raise NotImplementedError(ast.dump(node)[:120])

    def method(self, name):
        src = textwrap.dedent(inspect.getsource(getattr(Relation, name)))
        fn = ast.parse(src).body[0]
        body = [s for s in fn.body if not (isinstance(s, ast.Expr) and isinstance(s.value, ast.Constant))]
        if len(body) != 1 or not isinstance(body[0], ast.Return):
            raise NotImplementedError('method %s is not a single return expression' % name)
        return self.tr(body[0].value)


def batch_e3():
    """Translate Relation.is_* from the current source and decide the partition with z3 (and cvc5 if
    the binary answers); validate the translation on a concrete grid first."""
    import z3
    res = {'instances': 0, 'nontrivial': 0, 'violations': [], 'native_runs': 0, 'sample': None}
    mn, mx, k = z3.Ints('mn mx k')
    try:
        tr = _Py2Smt(z3, mn, mx, k, None)
        enc = {m: tr.method('is_' + m) for m in ['mandatory', 'optional', 'or', 'alternative', 'mutex', 'cardinal', 'group']}
    except NotImplementedError as exc:
        res['note'] = 'E3 inconclusive: source outside the translated subset (%s)' % exc
        return res
    # validation of the translator against the real methods on a grid
    for a, b, n in itertools.product(range(0, 7), range(0, 7), range(1, 7)):
        rel = Relation(Feature('P'), [Feature('C%d' % i) for i in range(n)], a, b)
        for m, e in enc.items():
            real = getattr(rel, 'is_' + m)()
            model_val = z3.is_true(z3.simplify(z3.substitute(e, (mn, z3.IntVal(a)), (mx, z3.IntVal(b)), (k, z3.IntVal(n)))))
            res['native_runs'] += 1
            if real != model_val:
                res['note'] = 'E3 translator disagrees with the real method is_%s at %r: inconclusive' % (m, (a, b, n))
                return res
    pre = z3.And(k >= 1, 0 <= mn, mn <= mx, mx <= k)
    six = [enc[m] for m in ['mandatory', 'optional', 'or', 'alternative', 'mutex', 'cardinal']]
    cnt = z3.Sum([z3.If(x, 1, 0) for x in six])
    # definition table
    table = z3.And(
        enc['mandatory'] == z3.And(k == 1, mn == 1, mx == 1),
        enc['optional'] == z3.And(k == 1, mn == 0, mx == 1),
        enc['alternative'] == z3.And(k > 1, mn == 1, mx == 1),
        enc['or'] == z3.And(k > 1, mn == 1, mx == k),
        enc['mutex'] == z3.And(k > 1, mn == 0, mx == 1),
        enc['cardinal'] == z3.And(k > 1, z3.Not(z3.And(mn == 1, mx == 1)), z3.Not(z3.And(mn == 1, mx == k)),
                                  z3.Not(z3.And(mn == 0, mx == 1))),
        enc['group'] == (k > 1))
    exclude_known = z3.Not(z3.And(k == 1, mn == 0, mx == 0)) if known('C03', 'relation-0-0-single-child') else z3.BoolVal(True)
    queries = {'exactly-one-class': z3.And(pre, exclude_known, cnt != 1), 'definition-table': z3.And(pre, z3.Not(table))}
    for name, q in queries.items():
        s = z3.Solver()
        s.set('timeout', 30000)
        s.add(q)
        r = str(s.check())
        R.Z3Stats.queries += 1
        res['instances'] += 1
        res['nontrivial'] += 1
        if r == 'sat':
            m = s.model()
            vals = [m.eval(v, model_completion=True).as_long() for v in (mn, mx, k)]
            res['violations'].append({'label': 'e3-' + name, 'detail': 'E3 %s fails at (min,max,k)=%r' % (name, vals),
                                      'replay_func': 'replay_partition', 'replay_args': vals})
        elif r != 'unsat':
            res['note'] = 'E3 %s: solver said %s (inconclusive)' % (name, r)
        # second solver: cvc5 binary on the same SMT-LIB text
        res.setdefault('cvc5', {})[name] = _cvc5(s.to_smt2())
        if res['cvc5'][name] not in ('unsat', 'sat', 'unavailable', 'timeout') or \
                (res['cvc5'][name] in ('sat', 'unsat') and res['cvc5'][name] != r and r in ('sat', 'unsat')):
            res['note'] = 'solver disagreement on %s: z3=%s cvc5=%s' % (name, r, res['cvc5'][name])
    res['sample'] = {'e3_encoding_is_or': str(enc['or']), 'queries': list(queries)}
    return res


def _cvc5(smt2: str) -> str:
    import subprocess
    import tempfile
    import os
    import shutil
    exe = shutil.which('cvc5')
    if not exe:
        return 'unavailable'
    fd, path = tempfile.mkstemp(suffix='.smt2')
    try:
        with os.fdopen(fd, 'w') as f:
            f.write('(set-logic ALL)\n' + smt2)
        p = subprocess.run([exe, '--tlimit=20000', path], stdout=subprocess.PIPE, stderr=subprocess.PIPE, text=True, timeout=40)
        out = p.stdout.strip().splitlines()
        if '(error' in p.stdout or '(error' in p.stderr:
            return 'error'
        return out[0] if out else 'timeout'
    except Exception:
        return 'timeout'
    finally:
        os.remove(path)


def replay_partition(mn, mx, k):
    ok = partition(mn, mx, list(range(k)))
    return [] if ok else ['partition/definition table fails for (min,max,k)=%r: classes %r' % (
        (mn, mx, k), _classes_of(Relation(Feature('P'), [Feature('C%d' % i) for i in range(k)], mn, mx)))]


# ---------------------------------------------------------------------------------------------
# b. queries on every shape


def _same_ids(got, want) -> bool:
    return sorted(id(x) for x in got) == sorted(id(x) for x in want)


def queries(shape, cards, types=None, fcards=None, names=None) -> bool:
    m = R.build(shape, cards, types=types, fcards=fcards, names=names)
    return check_queries(m, shape, cards, types, fcards)


def check_queries(m, shape, cards, types=None, fcards=None) -> bool:
    rels = R.relations_of(shape)
    n = R.n_features(shape)
    par = R.parents_of(shape)
    chil = R.children_of(shape)
    rbp = R.rels_by_parent(shape)
    # collect objects by attribute walk (reference numbering)
    feats = [None] * n
    relobjs = [None] * len(rels)
    counter = [0, 0]

    def walk(f):
        for r in f.relations:
            ri = counter[1]
            counter[1] += 1
            relobjs[ri] = r
            for c in r.children:
                counter[0] += 1
                feats[counter[0]] = c
                walk(c)
    feats[0] = m.root
    walk(m.root)
    ok = True
    cls = [R.rel_class(cards[ri][0], cards[ri][1], len(rels[ri][1])) for ri in range(len(rels))]
    # relation level
    for ri, r in enumerate(relobjs):
        got = _classes_of(r)
        if cls[ri] == 'none':
            if got != [] or not known('C03', 'relation-0-0-single-child'):
                return False
        elif got != [cls[ri]]:
            return False
        if r.is_group() != (len(rels[ri][1]) > 1):
            return False
    # listings
    if not _same_ids(m.get_features(), feats):
        return False
    if not _same_ids(m.get_relations(), relobjs):
        return False
    if m.get_constraints() is not m.ctcs:
        return False
    relof = {}
    for ri, (p, cs) in enumerate(rels):
        for c in cs:
            relof[c] = ri
    for i, f in enumerate(feats):
        if m.get_feature_by_name(f.name) is not f:
            return False
        if not _same_ids(f.get_children(), [feats[c] for c in chil[i]]):
            return False
        if f.get_parent() is not (feats[par[i]] if par[i] is not None else None):
            return False
        if f.is_root() != (par[i] is None) or f.is_leaf() != (len(chil[i]) == 0):
            return False
        if not _same_ids(f.get_relations(), [relobjs[ri] for ri in rbp[i]]):
            return False
        mand = (i in relof and cls[relof[i]] == 'mandatory')
        opt = (i in relof and cls[relof[i]] == 'optional')
        if f.is_mandatory() != mand or f.is_optional() != opt:
            return False
        mine = [cls[ri] for ri in rbp[i]]
        if f.is_or_group() != ('or' in mine) or f.is_alternative_group() != ('alternative' in mine):
            return False
        if f.is_mutex_group() != ('mutex' in mine) or f.is_cardinality_group() != ('cardinality' in mine):
            return False
        ngroups = sum(1 for ri in rbp[i] if len(rels[ri][1]) > 1)
        if f.is_group() != (ngroups > 0) or f.is_multiple_group_decomposition() != (ngroups > 1):
            return False
        t = types[i] if types is not None and types[i] is not None else FeatureType.BOOLEAN
        if f.is_boolean() != (t == FeatureType.BOOLEAN) or f.is_string() != (t == FeatureType.STRING):
            return False
        if f.is_numerical() != (t in (FeatureType.INTEGER, FeatureType.REAL)):
            return False
        fc = fcards[i] if fcards is not None and fcards[i] is not None else (1, 1)
        if f.is_multifeature() != (fc[0] != 1 or fc[1] != 1):
            return False
    # filtered listings
    def sel(pred):
        return [f for f in feats if pred(f)]
    idx = {id(f): i for i, f in enumerate(feats)}

    def mineof(f):
        return [cls[ri] for ri in rbp[idx[id(f)]]]
    pairs = [
        (m.get_mandatory_features(), sel(lambda f: idx[id(f)] in relof and cls[relof[idx[id(f)]]] == 'mandatory')),
        (m.get_optional_features(), sel(lambda f: idx[id(f)] in relof and cls[relof[idx[id(f)]]] == 'optional')),
        (m.get_alternative_group_features(), sel(lambda f: 'alternative' in mineof(f))),
        (m.get_or_group_features(), sel(lambda f: 'or' in mineof(f))),
    ]
    for got, want in pairs:
        if not _same_ids(got, want):
            return False
    if types is not None:
        tt = [types[i] if types[i] is not None else FeatureType.BOOLEAN for i in range(n)]
        if not _same_ids(m.get_boolean_features(), [feats[i] for i in range(n) if tt[i] == FeatureType.BOOLEAN]):
            return False
        if not _same_ids(m.get_numerical_features(), [feats[i] for i in range(n) if tt[i] in (FeatureType.INTEGER, FeatureType.REAL)]):
            return False
        if not _same_ids(m.get_string_features(), [feats[i] for i in range(n) if tt[i] == FeatureType.STRING]):
            return False
    return ok


def _append_at_last(shape):
    """shape with one more single-child relation under the last feature of the preorder."""
    if not shape:
        return ((),),
    last_rel = shape[-1]
    return shape[:-1] + (last_rel[:-1] + (_append_at_last(last_rel[-1]),),)


def queries_after_edit(shape, cards, kind) -> bool:
    """All queries, then an edit of the same model object in place, then all queries again against the tree as it is
    now (an index or cache filled by the first round must not survive the edit)."""
    m = R.build(shape, cards)
    if not check_queries(m, shape, cards):
        return False
    n = R.n_features(shape)
    rels = R.relations_of(shape)
    feats = [m.root]

    def walk(f):
        for r in f.relations:
            for c in r.children:
                feats.append(c)
                walk(c)
    walk(m.root)
    if kind == 0:        # drop the last relation of the root (with its subtree)
        m.root.relations.pop()
        shape2 = shape[:-1]
        cards2 = list(cards[:len(R.relations_of(shape2))])
        gone = feats[R.n_features(shape2):]
    elif kind == 1:      # rename the last feature in place
        old = feats[-1].name
        feats[-1].name = 'Zq7'
        if m.get_feature_by_name(old) is not None or m.get_feature_by_name('Zq7') is not feats[-1]:
            return False
        shape2, cards2, gone = shape, list(cards), []
    elif kind == 2:      # the model gets another tree over the same names
        shape2 = R.shapes(n, n)[-1] if R.shapes(n, n)[-1] != shape else R.shapes(n, n)[0]
        cards2 = R.default_cards(shape2)
        m.root = R.build(shape2, cards2).root
        gone = feats
    else:                # a new optional child under the last feature
        feats[-1].add_relation(Relation(feats[-1], [Feature('Zq8')], 0, 1))
        shape2 = _append_at_last(shape)
        cards2 = list(cards) + [(0, 1)]
        gone = []
    if not check_queries(m, shape2, cards2):
        return False
    listed = m.get_features()
    for g in gone:
        if any(x is g for x in listed):
            return False
        if m.get_feature_by_name(g.name) is g:
            return False      # a feature that is no longer in the tree must not be found by name
    return True


def replay_edit_queries(shape, cards, kind):
    shape = _totuple(shape)
    cards = [tuple(c) for c in cards]
    try:
        ok = queries_after_edit(shape, cards, kind)
    except Exception as exc:
        return ['queries after an in-place edit raise %s: %s' % (type(exc).__name__, exc)]
    return [] if ok else ['after an in-place edit (%s) the queries no longer describe the tree: shape %s cards %r'
                          % (['last relation of the root dropped', 'last feature renamed', 'root replaced by another tree over the same names', 'child added under the last feature'][kind], R.shape_str(shape), cards)]


def batch_edit_queries(max_n):
    res = {'instances': 0, 'nontrivial': 0, 'violations': [], 'native_runs': 0}
    for shape in R.shapes(max_n, 2):
        for cards in R.all_cards(shape, allow_zero_max=False):
            for kind in range(4):
                res['instances'] += 1
                res['native_runs'] += 1
                res['nontrivial'] += 1
                bad = replay_edit_queries(shape, cards, kind)
                if bad:
                    res['violations'].append({'label': 'queries-after-edit', 'detail': bad[0], 'replay_func': 'replay_edit_queries', 'replay_args': [shape, cards, kind]})
                    if len(res['violations']) >= 4:
                        return res
    res['sample'] = {'edits': 'drop relation / rename / replace root / add child, after a first round of queries'}
    return res


def queries_typed(shape, cards, pos, tcode, fc) -> bool:
    n = R.n_features(shape)
    types = [TYPES[(i + 1) % 4] for i in range(n)]
    types[pos] = TYPES[tcode]
    fcards = [None] * n
    fcards[pos] = (fc[0], fc[1])
    return queries(shape, cards, types=types, fcards=fcards)


def lookup(shape, pos, name) -> bool:
    """get_feature_by_name with one symbolic name at preorder position `pos`."""
    n = R.n_features(shape)
    names = ['F%d' % i for i in range(n)]
    names[pos] = name
    m = R.build(shape, R.default_cards(shape), names=names)
    feats = [m.root]

    def walk(f):
        for r in f.relations:
            for c in r.children:
                feats.append(c)
                walk(c)
    walk(m.root)
    for i, f in enumerate(feats):
        if m.get_feature_by_name(names[i]) is not f:
            return False
    if m.get_feature_by_name(name + 'x') is not None:
        return False
    if len(name) > 1 and name[:-1] not in names and m.get_feature_by_name(name[:-1]) is not None:
        return False
    # every other query on the model that carries the symbolic name (a name equal to a sibling's up to letter
    # case, a prefix of it, ... must not change what the predicates and listings say)
    return check_queries(m, shape, R.default_cards(shape))


def batch_ctc_listings(seed, count):
    """Constraint-kind listings are exactly the filter of the constraint list by the predicate,
    each constraint once and in order (the predicates themselves are C18)."""
    rnd = random.Random(seed)
    names = ['F0', 'F1', 'F2']
    pool = R.logical_trees(names, 1)
    from . import c18 as _c18
    pool2 = [t for t in _c18.family_depth2_restricted(names) if isinstance(t, tuple)]
    arith = [('EQUALS', 'F1', 3), ('LOWER', ('ADD', 'F1', 'F2'), 5), ('GREATER', ('SUM', 'F1', 'F2'), 1),
             ('NOT_EQUALS', ('MUL', 'F1', 2), ('DIV', 'F2', 2))]
    res = {'instances': 0, 'nontrivial': 0, 'violations': [], 'native_runs': 0}
    shape = (((), ()),)
    for it in range(count):
        trees = [rnd.choice(pool if it % 2 == 0 else pool2) for _ in range(rnd.randint(0, 4))]
        if it % 3 == 0:
            trees.append(rnd.choice(arith))
        ctcs = [R.ctc('c%d' % i, t) for i, t in enumerate(trees)]
        m = R.build(shape, [(1, 2)], ctcs=ctcs)
        res['instances'] += 1
        res['native_runs'] += 1
        res['nontrivial'] += 1 if ctcs else 0
        bad = replay_ctc_listing(trees)
        if bad:
            res['violations'].append({'label': 'ctc-listing', 'detail': bad[0], 'replay_func': 'replay_ctc_listing', 'replay_args': [trees]})
    res['sample'] = {'constraints': [str(t) for t in trees]}
    return res


def batch_ctc_listing_family(lo, hi):
    """every tree of the restricted depth-2 family (and the OR-of-OR variants), each alone in a model."""
    from . import c18 as _c18
    names = ['F0', 'F1', 'F2']
    fam = [t for t in _c18.family_depth2_restricted(names) if isinstance(t, tuple)]
    fam += [('OR', ('OR', a, b), ('NOT', c)) for a in names for b in names for c in names] + [('OR', ('NOT', c), ('OR', a, b)) for a in names for b in names for c in names]
    fam += _c18.family_both_sides(names + ['F3'])[::4]       # compound operands on both sides (every fourth tree; all of them in C18)
    res = {'instances': 0, 'nontrivial': 0, 'violations': [], 'native_runs': 0}
    for t in fam[lo:hi]:
        res['instances'] += 1
        res['native_runs'] += 1
        res['nontrivial'] += 1
        bad = replay_ctc_listing([t])
        if bad:
            res['violations'].append({'label': 'ctc-listing', 'detail': bad[0], 'replay_func': 'replay_ctc_listing', 'replay_args': [[t]]})
            if len(res['violations']) >= 4:
                return res
    res['sample'] = {'family': 'depth-2 restricted + OR-of-OR with a negated literal', 'size': len(fam)}
    return res


def _totuple(t):
    if isinstance(t, list):
        return tuple(_totuple(x) for x in t)
    return t


def replay_ctc_listing(trees):
    trees = [_totuple(t) for t in trees]
    ctcs = [R.ctc('c%d' % i, t) for i, t in enumerate(trees)]
    m = R.build((((), ()),), [(1, 2)], ctcs=ctcs)
    pairs = {
        'logical': (m.get_logical_constraints, 'is_logical_constraint'),
        'arithmetic': (m.get_arithmetic_constraints, 'is_arithmetic_constraint'),
        'aggregation': (m.get_aggregations_constraints, 'is_aggregation_constraint'),
        'simple': (m.get_simple_constraints, 'is_simple_constraint'),
        'complex': (m.get_complex_constraints, 'is_complex_constraint'),
        'requires': (m.get_requires_constraints, 'is_requires_constraint'),
        'excludes': (m.get_excludes_constraints, 'is_excludes_constraint'),
        'pseudocomplex': (m.get_pseudocomplex_constraints, 'is_pseudocomplex_constraint'),
        'strictcomplex': (m.get_strictcomplex_constraints, 'is_strictcomplex_constraint'),
    }
    out = []
    for kind, (listing, pred) in pairs.items():
        try:
            got = [id(c) for c in listing()]
            want = [id(c) for c in ctcs if getattr(c, pred)()]
        except Exception:
            continue  # exceptions inside the predicates are C18's subject
        if got != want:
            out.append('%s listing != filter by %s on %r' % (kind, pred, trees))
    if [id(c) for c in m.get_constraints()] != [id(c) for c in ctcs]:
        out.append('get_constraints() is not the constraint list')
    # pseudo- / strict-complex listings against the reference definition (raw clause set of the CNF, where canonical)
    from . import c18 as _c18x
    try:
        pse = [id(c) for c in m.get_pseudocomplex_constraints()]
        stc = [id(c) for c in m.get_strictcomplex_constraints()]
        for c, t in zip(ctcs, trees):
            kind = _c18x.ref_complex_kind(t)
            if kind is None or not c.is_complex_constraint():
                continue
            if (id(c) in pse, id(c) in stc) != (kind == 'pseudo', kind == 'strict'):
                out.append('%r splits into %s: it belongs in the %s-complex listing only, but pseudo listing: %s, strict listing: %s'
                           % (t, 'requires / excludes clauses only' if kind == 'pseudo' else 'clauses of which one is no requires / excludes', kind, id(c) in pse, id(c) in stc))
    except Exception:
        pass
    # what the requires / excludes listings must contain is a matter of meaning: the documented simple forms are listed,
    # and whatever is listed is equivalent to 'l implies r' / 'not both l and r' for two of its features (truth table)
    from . import c17 as _c17, c18 as _c18
    try:
        req = [id(c) for c in m.get_requires_constraints()]
        exc = [id(c) for c in m.get_excludes_constraints()]
    except Exception:
        return out
    for c, t in zip(ctcs, trees):
        if not isinstance(t, tuple) or not all(o in _c18.LOGICAL for o in _c18.ops_of(t)):
            continue
        doc = _c18.simple_form(t)
        if doc is not None and doc[0] == 'requires' and id(c) not in req:
            out.append('the documented requires form %r is missing from get_requires_constraints()' % (t,))
        if doc is not None and doc[0] == 'excludes' and id(c) not in exc:
            out.append('the documented excludes form %r is missing from get_excludes_constraints()' % (t,))
        if id(c) in req and not _c17._sem_simple(t, True):
            out.append('%r is listed by get_requires_constraints() but is not equivalent to "l implies r" for any two of its features' % (t,))
        if id(c) in exc and not _c17._sem_simple(t, False):
            out.append('%r is listed by get_excludes_constraints() but is not equivalent to "not both l and r" for any two of its features' % (t,))
    return out


def batch_native_grid(max_n):
    """Native validation sweep: all shapes x all cardinalities through the same oracle."""
    res = {'instances': 0, 'nontrivial': 0, 'violations': [], 'native_runs': 0}
    from .common import SIBLING_GROUPS
    from .larger import CASE_NAMES
    for shape in R.shapes(max_n) + (SIBLING_GROUPS if max_n < 6 else []):
        for cards in R.all_cards(shape, allow_zero_max=True):
            res['instances'] += 1
            res['native_runs'] += 1
            res['nontrivial'] += 1
            # placeholder names, and names that differ from one another by letter case only (distinct, legal names)
            for ns in (None, res['instances'] % len(CASE_NAMES)):
                ok = False
                nm = None if ns is None else CASE_NAMES[ns][:R.n_features(shape)]
                try:
                    ok = queries(shape, cards, names=nm)
                except Exception as exc:
                    ok = False
                if not ok:
                    res['violations'].append({'label': 'native-grid', 'detail': 'query oracle fails on shape %s cards %r names %r' % (R.shape_str(shape), cards, nm),
                                              'replay_func': 'replay_queries', 'replay_args': [shape, cards, nm]})
                    if len(res['violations']) > 3:
                        return res
    res['sample'] = {'shape': R.shape_str(shape), 'cards': cards}
    return res


def replay_queries(shape, cards, names=None):
    shape = _totuple(shape)
    cards = [tuple(c) for c in cards]
    try:
        ok = queries(shape, cards, names=names)
    except Exception as exc:
        return ['%s: %s' % (type(exc).__name__, exc)]
    return [] if ok else ['query oracle fails on shape %s cards %r' % (R.shape_str(shape), cards)]


# ---------------------------------------------------------------------------------------------


def conditions(tier, seed):
    N = 4 if tier == 'quick' else 6
    conds = []
    imp = 'from fmverif.props import c03 as P\n'
    conds.append(Cond(
        name='c03_partition', imports=imp, params='mn: int, mx: int, kids: List[int]',
        pre=['len(kids) >= 1', '0 <= mn <= mx <= len(kids)'],
        body='P.partition(mn, mx, kids)', timeout=60, aspect='partition (unbounded ints, symbolic child count)',
        sample={'relation': 'Relation(P, kids, mn, mx)', 'bound': 'none on mn, mx, len(kids)'},
        validate=[(1, 1, [0]), (0, 1, [0, 1]), (1, 3, [0, 1, 2]), (2, 3, [0, 1, 2, 3]), (0, 0, [0, 1])]))
    rnd = random.Random(seed)
    from .common import indexed_shapes
    from .common import cards_params as _cp
    for si, shape in indexed_shapes(N, 2):
        if not R.relations_of(shape):
            continue
        cp, cpre, cexpr = _cp(shape)
        dc = tuple(x for c in R.default_cards(shape) for x in c)
        conds.append(Cond(name='c03_edit_%d' % si, imports='from fmverif.props import c03 as P\nSHAPE_%d = %r\n' % (si, shape), params=cp + ', kind: int',
                          pre=cpre + ['0 <= kind < 4'], body='P.queries_after_edit(SHAPE_%d, %s, kind)' % (si, cexpr), timeout=(60 if tier == 'quick' else 200),
                          aspect='all queries, an in-place edit (drop relation / rename / replace root / add child), all queries again against the current tree',
                          sample={'shape': R.shape_str(shape), 'symbolic': 'all (min,max), the kind of edit'}, validate=[dc + (0,), dc + (1,), dc + (2,), dc + (3,)]))
    for si, shape in indexed_shapes(N):
        rels = R.relations_of(shape)
        n = R.n_features(shape)
        if not rels:
            continue
        params = ', '.join('a%d: int, b%d: int' % (i, i) for i in range(len(rels)))
        pre = ['0 <= a%d <= b%d <= %d' % (i, i, len(cs)) for i, (p, cs) in enumerate(rels)]
        cards = '[' + ', '.join('(a%d, b%d)' % (i, i) for i in range(len(rels))) + ']'
        simp = imp + 'SHAPE_%d = %r\n' % (si, shape)
        dc = R.default_cards(shape)
        flat = tuple(x for c in dc for x in c)
        conds.append(Cond(
            name='c03_q_%d' % si, imports=simp, params=params, pre=pre,
            body='P.queries(SHAPE_%d, %s)' % (si, cards), timeout=30 if tier == 'quick' else 60,
            aspect='queries/cards', sample={'shape': R.shape_str(shape), 'symbolic': 'all (min,max)'},
            validate=[flat]))
        # typed features + feature cardinality of the last feature, cards fixed
        pos = (si + seed) % n
        conds.append(Cond(
            name='c03_t_%d' % si, imports=simp, params='t: int, fa: int, fb: int', pre=['0 <= t <= 3', '0 <= fa', '-1 <= fb'],
            body='P.queries_typed(SHAPE_%d, %r, %d, t, (fa, fb))' % (si, dc, pos),
            timeout=30 if tier == 'quick' else 60, aspect='queries/types',
            sample={'shape': R.shape_str(shape), 'symbolic': 'type and feature cardinality (unbounded) of F%d' % pos},
            validate=[(0, 1, 1), (3, 0, -1), (1, 2, 5)]))
        conds.append(Cond(
            name='c03_n_%d' % si, imports=simp, params='name: str',
            pre=['1 <= len(name) <= %d' % (2 if tier == 'quick' else 3),
                 'all(len(name) != len(o) or name != o for o in %r)' % (['F%d' % i for i in range(n) if i != pos],)],
            body='P.lookup(SHAPE_%d, %d, name)' % (si, pos), timeout=30 if tier == 'quick' else 60,
            aspect='lookup/name', sample={'shape': R.shape_str(shape), 'symbolic': 'name of F%d' % pos},
            validate=[('F',), ('Fx',), ('x',)]))
    return conds


def batches(tier, seed):
    N = 4 if tier == 'quick' else 5
    return [('batch_e3', []), ('batch_ctc_listings', [seed, 150 if tier == 'quick' else 1500]),
            ('batch_native_grid', [N]), ('batch_edit_queries', [N])] + [('batch_ctc_listing_family', [lo, lo + 1100]) for lo in range(0, 6600, 1100)]


WITNESSES = {'relation-0-0-single-child': witness_rel00}


def info(tier):
    return {
        'assumptions': [
            'models are built through the public constructors (Feature, Relation, add_relation, FeatureModel)',
            'C03a: pre 0 <= min <= max <= k, k >= 1 exactly as the quantifier; no bound on the integers',
            'C03b: tree shapes are enumerated exhaustively up to N features (enumeration, not a solver verdict)',
            'names: one symbolic name per condition, other names are the placeholders F0..Fn',
            'models returned by readers are covered by C02 + this oracle in the reader properties, not here',
        ],
        'coverage': {
            'functions_encoded': ['Relation.is_mandatory/is_optional/is_or/is_alternative/is_mutex/is_cardinal/is_group',
                                  'Feature.get_children/get_parent/get_relations/is_root/is_leaf/is_mandatory/is_optional/'
                                  'is_*_group/is_group/is_multiple_group_decomposition/is_boolean/is_numerical/is_string/is_multifeature',
                                  'FeatureModel.get_features/get_relations/get_feature_by_name/get_*_features/get_*_constraints'],
            'bounds': {'shapes': 'all with <= %d features' % (4 if tier == 'quick' else 6), 'cards': '0<=min<=max<=k symbolic',
                       'name_len': 2 if tier == 'quick' else 3, 'partition': 'unbounded'},
            'stubs': [],
            'engines': ['E1 crosshair', 'E3 py2smt on Relation.is_* source (z3 + cvc5)', 'native validation sweep'],
        },
    }
