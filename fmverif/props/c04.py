"""C04 - UVL reader yields the model the document denotes, or fails loudly."""
from __future__ import annotations

import os
import random

from flamapy.core.exceptions import FlamaException
from flamapy.metamodels.fm_metamodel.models import FeatureType
from flamapy.metamodels.fm_metamodel.transformations import UVLReader

from .. import refsem as R
from ..known import known
from ..runner import Cond
from .common import indexed_shapes, totuple
from . import rt, uvlio, uvltok
from .uvltok import NoTracing
from .c01 import UVLParserNames, _replace_once, same_s

ID = 'C04'
LEVEL = 'model_checking'

OPTS = ['quote', 'parens', 'merge', 'comments', 'headers', 'short_card', 'spaces', 'card_syntax']
TYPE_KW = {FeatureType.BOOLEAN: 'Boolean', FeatureType.INTEGER: 'Integer', FeatureType.REAL: 'Real', FeatureType.STRING: 'String'}
PREC = {'NOT': 5, 'AND': 4, 'OR': 3, 'IMPLIES': 2, 'EQUIVALENCE': 1}
SYM = {'AND': '&', 'OR': '|', 'IMPLIES': '=>', 'EQUIVALENCE': '<=>', 'EQUALS': '==', 'LOWER': '<', 'LOWER_EQUALS': '<=', 'GREATER': '>',
       'GREATER_EQUALS': '>=', 'NOT_EQUALS': '!=', 'ADD': '+', 'SUB': '-', 'MUL': '*', 'DIV': '/'}
AGG = {'SUM': 'sum', 'AVG': 'avg', 'LEN': 'len', 'FLOOR': 'floor', 'CEIL': 'ceil'}

CTCS = [
    [],
    [('IMPLIES', 'F1', 'F2'), ('OR', ('NOT', ('AND', 'F1', 'F2')), 'F0')],
    [('EQUIVALENCE', ('OR', 'F1', 'F2'), ('NOT', 'F0')), ('AND', ('IMPLIES', 'F1', 'F0'), ('OR', 'F2', 'F1')), ('NOT', ('NOT', 'F1'))],
    [('GREATER', ('ADD', 'F1', 1), ('MUL', 2, 'F2')), ('GREATER_EQUALS', ('SUM', 'cost'), 1), ('EQUALS', ('AVG', 'cost', 'F1'), 2.5), ('LOWER', ('LEN', 'F2'), 3),
     ('NOT_EQUALS', ('FLOOR', 'F1'), ('CEIL', 'F1')), ('EQUALS', 'F2', "'txt'"), ('LOWER_EQUALS', ('DIV', ('SUB', 'F1', 'F2'), 2), 4)],
    [('IMPLIES', ('IMPLIES', 'F1', 'F2'), 'F0'), ('IMPLIES', 'F1', ('IMPLIES', 'F2', 'F0')), ('EQUIVALENCE', 'F1', ('EQUIVALENCE', 'F2', 'F0')), ('AND', 'F1', ('AND', 'F2', 'F0')),
     ('OR', ('OR', 'F1', 'F2'), 'F0'), ('EQUALS', ('SUB', 'F1', ('SUB', 'F2', 1)), 0)],
    # the same line twice, lines that differ by the letter case of a string literal only, and more than ten lines (positional names 'Constraint 10' < 'Constraint 2')
    [('IMPLIES', 'F1', 'F2'), ('IMPLIES', 'F1', 'F2'), ('IMPLIES', ('EQUALS', 'F2', "'eco'"), 'F1'), ('IMPLIES', ('EQUALS', 'F2', "'ECO'"), 'F1'),
     ('OR', 'F1', 'F2'), ('AND', 'F1', 'F0'), ('IMPLIES', 'F0', 'F1'), ('IMPLIES', 'F2', 'F0'), ('NOT', 'F1'), ('OR', ('NOT', 'F1'), 'F0'),
     ('EQUIVALENCE', 'F1', 'F0'), ('IMPLIES', 'F1', 'F2'), ('OR', 'F2', ('NOT', 'F0'))],
]


# header variants (namespace, include lines, import lines): every form of a language level the grammar has - the major level
# alone, major.*, major.minor with every minor level - imports with and without alias, sections present or absent
HEADER_VARIANTS = [
    ('Ref', ['Boolean', 'Arithmetic', 'Type'], ['other.sub as osub', 'plain']),
    ('Ref', ['Boolean.group-cardinality', 'Arithmetic.*'], ['other.sub as osub']),
    (None, ['Type.*', 'Boolean.*', 'Arithmetic'], None),
    ('N_s', ['Arithmetic.feature-cardinality', 'Arithmetic.aggregate-function', 'Type.string-constraints', 'Boolean'], None),
    ('Ref', None, ['a.b.c']),
    (None, ['Type'], ['x as y', 'z']),
]


def ident(name, opts):
    if opts.get('quote') or not uvltok.is_id_strict(name, uvltok.ID_FIRST, uvltok.ID_REST, uvltok.RESERVED):
        return '"' + name + '"'
    return name


def value_text(v):
    if v is True:
        return 'true'
    if v is False:
        return 'false'
    if isinstance(v, str):
        return "'" + v + "'"
    if isinstance(v, list):
        return '[' + ', '.join(value_text(x) for x in v) + ']'
    if isinstance(v, dict):
        return '{' + ', '.join((k if x is None else k + ' ' + value_text(x)) for k, x in v.items()) + '}'
    return str(v)


def expr_text(t, opts, parent=None, right=False):
    if not isinstance(t, tuple):
        if isinstance(t, str) and not t.startswith("'"):
            return ident(t, opts)
        return str(t)
    op = t[0]
    if op in AGG:
        s = AGG[op] + '(' + ', '.join(ident(x, opts) for x in t[1:]) + ')'
        return s
    if op == 'NOT':
        inner = expr_text(t[1], opts, 'NOT')
        s = '!' + inner
    else:
        s = expr_text(t[1], opts, op, False) + ' ' + SYM[op] + ' ' + expr_text(t[2], opts, op, True)
    need = False
    if parent is not None:
        if op in PREC and parent in PREC:
            need = PREC[op] < PREC[parent] or (PREC[op] == PREC[parent] and (right or op in ('IMPLIES', 'EQUIVALENCE')) and op != 'NOT')
        elif op != 'NOT':
            need = True           # arithmetic / comparison operands are always parenthesised
    if need or (opts.get('parens') and op != 'NOT') or (opts.get('parens') and parent is None and False):
        s = '(' + s + ')'
    return s


def emit(shape, cards, names, abstract, types, fcards, attrs, trees, opts):
    """reference UVL emitter. attrs: {feature index: [(name, value)]}"""
    ind = '    ' if opts.get('spaces') else '\t'
    rels = R.relations_of(shape)
    rbp = R.rels_by_parent(shape)
    lines = []
    if opts.get('comments') and not opts.get('headers'):
        lines.append('// generated by the reference emitter')
    if opts.get('headers'):
        # (the installed grammar accepts the headers only in this order, without blank lines, and no comment line before 'namespace')
        hv = HEADER_VARIANTS[(opts['headers'] if type(opts['headers']) is int else 1) % len(HEADER_VARIANTS)]
        if hv[0]:
            lines.append('namespace ' + hv[0])
        if hv[1]:
            lines += ['include'] + [ind + x for x in hv[1]]
        if hv[2]:
            lines += ['imports'] + [ind + x for x in hv[2]]
        if opts.get('comments'):
            lines.append('// generated by the reference emitter')
    lines.append('features' + (' // the tree' if opts.get('comments') else ''))

    def feature_line(i, depth):
        s = ind * depth
        if types and types[i] is not None:
            s += TYPE_KW[types[i]] + ' '
        s += ident(names[i], opts)
        if fcards and fcards[i] is not None:
            a, b = fcards[i]
            s += ' cardinality ' + card_text(a, b, opts)
        items = []
        if abstract and abstract[i]:
            items.append('abstract')
        for an, av in (attrs or {}).get(i, []):
            items.append(ident(an, opts) if av is None else ident(an, opts) + ' ' + value_text(av))
        if items:
            s += ' {' + ', '.join(items) + '}'
        if opts.get('comments') and depth == 1:
            s += ' // root'
        lines.append(s)
        last_kw = None
        for ri in rbp[i]:
            p, cs = rels[ri]
            mn, mx = cards[ri]
            k = len(cs)
            kw = None
            if not opts.get('card_syntax') or mx == -1:
                if k == 1 and (mn, mx) == (1, 1):
                    kw = 'mandatory'
                elif k == 1 and (mn, mx) == (0, 1):
                    kw = 'optional'
                elif k > 1 and (mn, mx) == (1, 1):
                    kw = 'alternative'
                elif k > 1 and mn == 1 and mx == k:
                    kw = 'or'
            if kw is None:
                kw = card_text(mn, mx, opts)
            mergeable = kw in ('mandatory', 'optional')
            if not (opts.get('merge') and mergeable and last_kw == kw):
                lines.append(ind * (depth + 1) + kw)
            last_kw = kw if mergeable else None
            for c in cs:
                feature_line(c, depth + 2)
    feature_line(0, 1)
    if trees:
        if opts.get('comments'):
            lines.append('// cross-tree constraints')
        lines.append('constraints')
        for t in trees:
            lines.append(ind + expr_text(t, opts) + (' // c' if opts.get('comments') else ''))
    return '\n'.join(lines) + '\n'


def card_text(a, b, opts):
    if b == -1:
        return '[' + str(a) + '..*]'
    if a == b and opts.get('short_card'):
        return '[' + str(a) + ']'
    return '[' + str(a) + '..' + str(b) + ']'


def want_model(shape, cards, names, abstract, types, fcards, attrs, trees):
    al = [(i, an, av) for i, lst in (attrs or {}).items() for an, av in lst]
    return uvlio.make(shape, cards, names=names, abstract=abstract, types=types, fcards=fcards, attrs=al, trees=trees)


def strip_none(t):
    if isinstance(t, tuple):
        return tuple(strip_none(x) for x in t if x is not None)
    return t


def denotes(m, want) -> bool:
    if rt.tree_snapshot(m, attrs=True, types=True) != rt.tree_snapshot(want, attrs=True, types=True):
        return False
    if len(m.ctcs) != len(want.ctcs):
        return False
    for c1, c2 in zip(m.ctcs, want.ctcs):
        if strip_none(R.node_tree(c1.ast.root)) != strip_none(R.node_tree(c2.ast.root)):
            return False
    return True


def payload(shape, code):
    n = R.n_features(shape)
    names = ['F%d' % i for i in range(n)]
    abstract = [i % 3 == 0 for i in range(n)]
    types = [[None, FeatureType.INTEGER, FeatureType.STRING, FeatureType.REAL, FeatureType.BOOLEAN][i % 5] for i in range(n)]
    fcards = [None] * n
    if n >= 2:
        fcards[n - 1] = (0, 3)
    if n >= 3:
        fcards[1] = (2, -1)
    attrs = {min(1, n - 1): [('cost', 3), ('label', 'x y'), ('ratio', 2.5), ('flag', True), ('vec', [1, 'a', False]), ('nested', {'k': 1, 'e': None, 'l': [2, 3]}), ('bare', None)]}
    trees = CTCS[code] if n >= 3 else ([] if n < 2 else [('IMPLIES', 'F1', 'F0')])
    return names, abstract, types, fcards, attrs, trees


def surface_ok(shape, cards, code, opts) -> bool:
    names, abstract, types, fcards, attrs, trees = payload(shape, code)
    with NoTracing():
        text = emit(shape, cards, names, abstract, types, fcards, attrs, trees, dict(opts))
        tree, tokens, errs = uvltok.parse_text(text)
    if errs:
        return False
    got = uvltok.reader_on(tree).transform()
    return denotes(got, want_model(shape, cards, names, abstract, types, fcards, attrs, trees))


def surface_sym(shape, code, fixed, o0, o1, o2, o3) -> bool:
    """four of the surface options symbolic, the others fixed."""
    opts = dict(fixed)
    free = [o for o in OPTS if o not in fixed]
    for name, val in zip(free, (o0, o1, o2, o3)):
        opts[name] = bool(val)
    cards = star_default(shape)
    return surface_ok(shape, cards, code, opts)


def star_default(shape):
    out = []
    for ri, (p, cs) in enumerate(R.relations_of(shape)):
        k = len(cs)
        out.append([(1, 1), (0, 1)][ri % 2] if k == 1 else [(1, 1), (1, k), (0, 1), (k, k), (1, -1), (0, k)][ri % 6])
    return out


def cards_sym(shape, cards, short, card_syntax) -> bool:
    got, want = cards_doc(shape, cards, short, card_syntax)
    return denotes(got, want)


def cards_doc(shape, cards, short, card_syntax):
    """all cardinalities symbolic through the CARDINALITY tokens of the reference document."""
    n = R.n_features(shape)
    names = ['F%d' % i for i in range(n)]
    rels = R.relations_of(shape)
    opts = {'short_card': bool(short), 'card_syntax': bool(card_syntax)}
    # template: the emitter decides keyword vs cardinality syntax on the (symbolic) class
    tcards = []
    slots = []
    for ri, (p, cs) in enumerate(rels):
        k = len(cs)
        mn, mx = cards[ri]
        kw = None
        if not card_syntax or mx == -1:
            if k == 1 and mn == 1 and mx == 1:
                kw = (1, 1)
            elif k == 1 and mn == 0 and mx == 1:
                kw = (0, 1)
            elif k > 1 and mn == 1 and mx == 1:
                kw = (1, 1)
            elif k > 1 and mn == 1 and mx == k:
                kw = (1, k)
        if kw is not None and not (mx == -1):
            tcards.append(kw)
        else:
            tcards.append((70 + ri, 90 + ri))
            slots.append(ri)
    with NoTracing():
        text = emit(shape, tcards, names, None, None, None, None, [], {'short_card': False, 'card_syntax': bool(card_syntax)})
        tree, tokens, errs = uvltok.parse_text(text)
        if errs:
            raise RuntimeError('reference template does not parse: %r' % errs)
        ctoks = [(t, t.text) for t in tokens if UVLParserNames[t.type] == 'CARDINALITY']
    for t, txt in ctoks:
        for ri in slots:
            if txt == '[%d..%d]' % (70 + ri, 90 + ri):
                t.text = card_text(cards[ri][0], cards[ri][1], opts)
    got = uvltok.reader_on(tree).transform()
    return got, uvlio.make(shape, cards, names=names)


def fcard_sym(shape, pos, a, b, short) -> bool:
    """the feature cardinality of one feature symbolic (two-digit bounds, [n], [n..m], [n..*]) through the
    CARDINALITY token of the reference document."""
    n = R.n_features(shape)
    names = ['F%d' % i for i in range(n)]
    cards = star_default(shape)
    cards = [(mn, mx) for mn, mx in cards]
    fc_t = [None] * n
    fc_t[pos] = (71, 93)
    with NoTracing():
        text = emit(shape, cards, names, None, None, fc_t, None, [], {'short_card': False})
        tree, tokens, errs = uvltok.parse_text(text)
        if errs:
            raise RuntimeError('reference template does not parse: %r' % errs)
        ctoks = [t for t in tokens if UVLParserNames[t.type] == 'CARDINALITY' and t.text == '[71..93]']
        if len(ctoks) != 1:
            raise RuntimeError('placeholder cardinality not found once')
    ctoks[0].text = card_text(a, b, {'short_card': bool(short)})
    got = uvltok.reader_on(tree).transform()
    fc = [None] * n
    fc[pos] = (a, b)
    return denotes(got, uvlio.make(shape, cards, names=names, fcards=fc))


def name_sym(shape, pos, name, quote) -> bool:
    n = R.n_features(shape)
    names = ['F%d' % i for i in range(n)]
    names[pos] = name
    other = names[(pos + 1) % n]
    trees = [('IMPLIES', name, other), ('GREATER', ('SUM', 'cost', name), 0)]
    attrs = {pos: [('cost', 1), (name, 2)]}
    opts = {'quote': bool(quote)}
    piece = ident(name, opts)
    tn = list(names)
    tn[pos] = 'Pqzx'
    with NoTracing():
        text = emit(shape, star_default(shape), tn, None, None, None, {pos: [('cost', 1), ('Pqzx', 2)]}, [('IMPLIES', 'Pqzx', other), ('GREATER', ('SUM', 'cost', 'Pqzx'), 0)], opts)
        tree, tokens, errs = uvltok.parse_text(text)
        if errs:
            raise RuntimeError('reference template does not parse: %r' % errs)
        slots = [t for t in tokens if t.text in ('Pqzx', '"Pqzx"')]
    for t in slots:
        t.text = piece
    got = uvltok.reader_on(tree).transform()
    return denotes(got, want_model(shape, star_default(shape), names, None, None, None, attrs, trees))


# -- native ----------------------------------------------------------------------------------------

def operator_pair_trees():
    """Every operator of the language as a direct operand (left and right) of every operator that admits it:
    logical operators over logical operators and comparisons, comparisons over arithmetic / aggregates / literals,
    arithmetic over arithmetic / aggregates / literals. Structural enumeration (grammar coverage), not sampled."""
    logical2 = ['AND', 'OR', 'IMPLIES', 'EQUIVALENCE']
    cmps = ['EQUALS', 'NOT_EQUALS', 'LOWER', 'LOWER_EQUALS', 'GREATER', 'GREATER_EQUALS']
    arith = ['ADD', 'SUB', 'MUL', 'DIV']
    num_leaf = ['F1', 3, 2.5]
    numeric = [(a, 'F1', 2) for a in arith] + [('SUM', 'cost'), ('AVG', 'cost', 'F1'), ('LEN', 'F2'), ('FLOOR', 'F1'), ('CEIL', 'F2')] + num_leaf
    boolean = ['F2', ('NOT', 'F1')] + [(o, 'F1', 'F0') for o in logical2] + [(c, 'F1', 3) for c in cmps]
    out = []
    for b in boolean:
        out.append(('NOT', b))
        for o in logical2:
            out.append((o, b, 'F2'))
            out.append((o, 'F0', b))
    for x in numeric:
        for c in cmps:
            out.append((c, x, 'F2'))
            out.append((c, 'F1', x))
        for a in arith:
            out.append(('EQUALS', (a, x, 'F2'), 1))
            out.append(('LOWER', 0, (a, 'F1', x)))
    # negated comparison inside a logical context, doubly negated, negation on both sides
    for c in cmps:
        out.append(('IMPLIES', 'F0', ('NOT', (c, ('ADD', 'F1', 1), 'F2'))))
        out.append(('NOT', ('NOT', (c, 'F1', 3))))
        out.append(('AND', ('NOT', (c, 'F1', 3)), ('NOT', (c, 3, 'F1'))))
    return out


def batch_operator_pairs(part, parts, seed):
    """reference documents whose constraint section runs through operator_pair_trees() in chunks."""
    rnd = random.Random(seed)
    res = {'instances': 0, 'nontrivial': 0, 'violations': [], 'native_runs': 0}
    trees = operator_pair_trees()
    shape = (((),), ((),), ((),))          # root with three single-child relations
    chunk = 12
    chunks = [trees[i:i + chunk] for i in range(0, len(trees), chunk)][part::parts]
    if part == 0:       # every header variant, with and without comment lines, tabs and blanks
        for h in range(1, len(HEADER_VARIANTS) + 1):
            for extra in ({}, {'comments': True}, {'spaces': True, 'quote': True}):
                args = [shape, [(0, 1), (1, 1), (0, 1)], 1, dict(extra, headers=h)]
                res['instances'] += 1
                res['native_runs'] += 1
                res['nontrivial'] += 1
                bad = file_case(*args)
                if bad:
                    res['violations'].append({'label': 'uvl-header-variants', 'detail': bad[0][:700], 'replay_func': 'file_case', 'replay_args': args})
    for ch in chunks:
        for opts in ({}, {'parens': True}, {'quote': True, 'spaces': True}):
            args = [shape, [(0, 1), (0, 1), (0, 1)], 0, opts, None, ch]
            res['instances'] += 1
            res['native_runs'] += 1
            res['nontrivial'] += 1
            bad = file_case(*args)
            if bad:
                # narrow down to the single line that is misread
                for t in ch:
                    one = file_case(shape, args[1], 0, opts, None, [t])
                    if one:
                        args = [shape, args[1], 0, opts, None, [t]]
                        bad = one
                        break
                res['violations'].append({'label': 'uvl-operator-pairs', 'detail': bad[0][:700], 'replay_func': 'file_case', 'replay_args': args})
                if len(res['violations']) >= 4:
                    return res
    res['sample'] = {'trees': len(trees), 'example': repr(trees[len(trees) // 2])}
    return res


def file_case(shape, cards, code, opts, fcards_over=None, trees_over=None) -> list:
    shape = totuple(shape)
    cards = [tuple(c) for c in cards]
    names, abstract, types, fcards, attrs, trees = payload(shape, code)
    if trees_over is not None:
        trees = [totuple(t) for t in trees_over]
    if fcards_over:
        fcards = [tuple(c) if c else None for c in fcards_over]
    text = emit(shape, cards, names, abstract, types, fcards, attrs, trees, opts)
    try:
        with rt.TempDir() as d:
            p = os.path.join(d, 'ref.uvl')
            with open(p, 'w', encoding='utf-8') as f:
                f.write(text)
            got = UVLReader(p).transform()
    except Exception as exc:
        return ['reader raises %s: %s on the valid document %r' % (type(exc).__name__, exc, text)]
    want = want_model(shape, cards, names, abstract, types, fcards, attrs, trees)
    if not denotes(got, want):
        return ['document %r read as %r, it denotes %r' % (text, R.snapshot(got, with_ctc_names=False), R.snapshot(want, with_ctc_names=False))]
    return []


def batch_surface(max_n, lo, hi, seed, per):
    rnd = random.Random(seed)
    res = {'instances': 0, 'nontrivial': 0, 'violations': [], 'native_runs': 0}
    for shape in R.shapes(max_n)[lo:hi]:
        for _ in range(per):
            cards = []
            for p, cs in R.relations_of(shape):
                k = len(cs)
                a = rnd.randint(0, k)
                cards.append((a, rnd.choice([-1] + list(range(max(a, 1), k + 1)))))
            opts = {o: rnd.random() < 0.5 for o in OPTS}
            if opts['headers']:
                opts['headers'] = 1 + rnd.randrange(len(HEADER_VARIANTS))       # which header variant (0 is falsy: no headers)
            args = [shape, cards, rnd.randrange(len(CTCS)), opts]
            if rnd.random() < 0.5:      # bounds of one, two and three digits, also above the number of children (read as written)
                wide = [0, 1, 2, 3, 9, 10, 11, 12, 20, 99, 100, 101]
                cards2 = []
                for (p, cs), (a, b) in zip(R.relations_of(shape), cards):
                    if len(cs) > 1 and rnd.random() < 0.6:
                        a = rnd.choice([x for x in wide if x <= len(cs)])
                        b = rnd.choice([-1] + [x for x in wide if x >= max(a, 1)])
                    cards2.append((a, b))
                nf = R.n_features(shape)
                fco = []
                for i in range(nf):
                    if rnd.random() < 0.5:
                        a = rnd.choice(wide)
                        fco.append((a, rnd.choice([-1] + [x for x in wide if x >= a and x >= 1])))
                    else:
                        fco.append(None)
                opts = dict(opts, card_syntax=True)
                args = [shape, cards2, args[2], opts, fco]
            res['instances'] += 1
            res['native_runs'] += 1
            res['nontrivial'] += 1
            bad = file_case(*args)
            if bad:
                res['violations'].append({'label': 'uvl-reference-document', 'detail': bad[0][:700], 'replay_func': 'file_case', 'replay_args': args})
                if len(res['violations']) >= 4:
                    return res
            res['sample'] = {'shape': R.shape_str(shape), 'cards': cards, 'opts': opts}
    return res


CORRUPTIONS = ['drop-bracket', 'stray-operator', 'no-features-keyword', 'bad-indent', 'unlexable', 'unbalanced-paren', 'dangling-operator', 'unclosed-brace']


def corrupt(text, kind, pos):
    lines = text.split('\n')
    if kind == 'drop-bracket':
        idx = [i for i, c in enumerate(text) if c == ']']
        if not idx:
            return None
        i = idx[pos % len(idx)]
        return text[:i] + text[i + 1:]
    if kind == 'unclosed-brace':
        idx = [i for i, c in enumerate(text) if c == '}']
        if not idx:
            return None
        i = idx[pos % len(idx)]
        return text[:i] + text[i + 1:]
    if kind == 'stray-operator':
        cl = [i for i, ln in enumerate(lines) if ln.strip() and not ln.strip().startswith('//') and i > 0]
        i = cl[pos % len(cl)]
        lines[i] = lines[i] + ' => &'
        return '\n'.join(lines)
    if kind == 'no-features-keyword':
        out = [ln for ln in lines if not ln.startswith('features')]
        return '\n'.join(out)
    if kind == 'bad-indent':
        cl = [i for i, ln in enumerate(lines) if ln.startswith('\t\t') or ln.startswith('        ')]
        if not cl:
            return None
        i = cl[pos % len(cl)]
        lines[i] = ('\t' * 9) + lines[i].strip()
        return '\n'.join(lines)
    if kind == 'unlexable':
        cl = [i for i, ln in enumerate(lines) if ln.strip() and not ln.strip().startswith('//') and '//' not in ln]
        i = cl[pos % len(cl)]
        lines[i] = lines[i] + ' §¤^'
        return '\n'.join(lines)
    if kind == 'unbalanced-paren':
        if 'constraints' not in text:
            return None
        return text.rstrip('\n') + '\n\t(F1 & (F2 | F0)\n'
    if kind == 'dangling-operator':
        if 'constraints' not in text:
            return None
        return text.rstrip('\n') + '\n\tF1 & \n'
    return None


def negative_case(shape, cards, code, opts, kind, pos) -> list:
    shape = totuple(shape)
    cards = [tuple(c) for c in cards]
    names, abstract, types, fcards, attrs, trees = payload(shape, code)
    text = emit(shape, cards, names, abstract, types, fcards, attrs, trees, opts)
    bad = corrupt(text, kind, pos)
    if bad is None or bad == text:
        return []
    # only documents the *parser/lexer* rejects are negative cases (ground truth: the installed grammar)
    tree, tokens, errs = uvltok.parse_text(bad)
    if not errs:
        return []
    try:
        with rt.TempDir() as d:
            p = os.path.join(d, 'bad.uvl')
            with open(p, 'w', encoding='utf-8') as f:
                f.write(bad)
            m = UVLReader(p).transform()
    except Exception:
        return []
    return ['document with syntax errors (%s: %r) was accepted and read as %r | text %r' % (kind, errs[:2], R.snapshot(m, with_ctc_names=False), bad)]


def batch_surface_all(shape_index, max_n, code):
    """all 2^8 combinations of the surface choices on one shape (exhaustive, native)."""
    import itertools
    res = {'instances': 0, 'nontrivial': 0, 'violations': [], 'native_runs': 0}
    shapes = [s for s in R.shapes(max_n) if R.n_features(s) >= 3]
    shape = shapes[shape_index % len(shapes)]
    for bits in itertools.product([False, True], repeat=len(OPTS)):
        opts = dict(zip(OPTS, bits))
        args = [shape, star_default(shape), code, opts]
        res['instances'] += 1
        res['native_runs'] += 1
        res['nontrivial'] += 1
        bad = file_case(*args)
        if bad:
            res['violations'].append({'label': 'uvl-reference-document', 'detail': bad[0][:700], 'replay_func': 'file_case', 'replay_args': args})
            if len(res['violations']) >= 4:
                return res
    res['sample'] = {'shape': R.shape_str(shape), 'surface': 'all %d combinations' % (2 ** len(OPTS))}
    return res


def batch_negative(max_n, seed, count):
    rnd = random.Random(seed)
    res = {'instances': 0, 'nontrivial': 0, 'violations': [], 'native_runs': 0}
    shapes = [s for s in R.shapes(max_n) if R.n_features(s) >= 3]
    for _ in range(count):
        shape = rnd.choice(shapes)
        cards = star_default(shape)
        opts = {o: rnd.random() < 0.5 for o in OPTS}
        for kind in CORRUPTIONS:
            args = [shape, cards, rnd.randrange(1, len(CTCS)), opts, kind, rnd.randrange(50)]
            res['instances'] += 1
            res['native_runs'] += 1
            res['nontrivial'] += 1
            bad = negative_case(*args)
            if bad:
                res['violations'].append({'label': 'uvl-syntax-error-accepted', 'detail': bad[0][:700], 'replay_func': 'negative_case', 'replay_args': args})
                if len(res['violations']) >= 4:
                    return res
        res['sample'] = {'shape': R.shape_str(shape), 'corruptions': CORRUPTIONS}
    res['note'] = 'negative half: concrete runs on the real lexer and parser (nothing symbolic can reach ANTLR); not solver coverage'
    return res


def conditions(tier, seed):
    conds = []
    N = 4 if tier == 'quick' else 5
    T = 120 if tier == 'quick' else 300
    L = 3 if tier == 'quick' else 4
    imp0 = 'from fmverif.props import c04 as P\n'
    rnd = random.Random(seed)
    for si, shape in indexed_shapes(N, 2):
        n = R.n_features(shape)
        rels = R.relations_of(shape)
        imp = imp0 + 'SHAPE_%d = %r\n' % (si, shape)
        code = (si + seed) % len(CTCS)
        params = ', '.join('a%d: int, b%d: int' % (i, i) for i in range(len(rels))) + ', short: bool, csyn: bool'
        pre = ['0 <= a%d <= %d and ((a%d <= b%d <= %d and b%d >= 1) or b%d == -1)' % (i, len(cs), i, i, len(cs) + (9 if len(cs) > 1 else 0), i, i) for i, (p, cs) in enumerate(rels)]
        cexpr = '[' + ', '.join('(a%d, b%d)' % (i, i) for i in range(len(rels))) + ']'
        dc = tuple(x for c in R.default_cards(shape) for x in c)
        fpos = (si + seed + 1) % n
        if tier != 'quick' or n <= 3:
          conds.append(Cond(name='c04_fcard_%d' % si, imports=imp, params='a: int, b: int, short: bool', pre=['0 <= a <= 12', 'a <= b <= 12 or b == -1'],
                          body='P.fcard_sym(SHAPE_%d, %d, a, b, short)' % (si, fpos), timeout=T,
                          aspect='feature cardinality symbolic ([n], [n..m], [n..*], one- and two-digit bounds) on the reference document',
                          sample={'shape': R.shape_str(shape), 'symbolic': 'feature cardinality of feature %d' % fpos},
                          validate=[(1, 1, False), (2, 10, False), (3, 12, False), (0, -1, False), (7, 7, True), (9, 10, False)]))
        conds.append(Cond(name='c04_cards_%d' % si, imports=imp, params=params, pre=pre, body='P.cards_sym(SHAPE_%d, %s, short, csyn)' % (si, cexpr), timeout=T,
                          aspect='group cardinalities symbolic ([n], [n..m], [n..*], keyword or cardinality syntax) on the reference document',
                          sample={'shape': R.shape_str(shape), 'symbolic': 'all cardinalities, [n] vs [n..n], keyword vs cardinality syntax'},
                          validate=[dc + (False, False), dc + (True, True), tuple(x for (p, cs) in rels for x in (len(cs), len(cs))) + (True, False)]))
        if tier == 'quick' and n > 3:
            continue
        pos = (si + seed) % n
        conds.append(Cond(name='c04_name_%d' % si, imports=imp, params='name: str, quote: bool',
                          pre=['1 <= len(name) <= %d' % L, 'all(len(name) != len(o) or name != o for o in %r)' % (['F%d' % i for i in range(n)] + ['Pqzx', 'cost'],),
                               'all(c not in name for c in [chr(34), ".", chr(10), chr(13)])', 'name != "abstract"'],
                          body='P.name_sym(SHAPE_%d, %d, name, quote)' % (si, pos), timeout=T,
                          aspect='identifier (quoted or plain) in feature, attribute and constraint positions of the reference document',
                          sample={'shape': R.shape_str(shape), 'symbolic': 'one name, quoted or not'}, validate=[('Zz', False), ('a b', False), ('or', True), ('x1', True)]))
    return conds


def batches(tier, seed):
    N = 4 if tier == 'quick' else 5
    total = len(R.shapes(N))
    step = total // 8 + 1
    b = [('batch_surface', [N, lo, lo + step, seed + lo, 6 if tier == 'quick' else 40]) for lo in range(0, total, step)]
    b += [('batch_surface_all', [seed + i * 5, N, (seed + i) % len(CTCS)]) for i in range(4 if tier == 'quick' else 12)]
    b += [('batch_negative', [N, seed * 3 + i, 10 if tier == 'quick' else 80]) for i in range(6)]
    b += [('batch_operator_pairs', [i, 4, seed]) for i in range(4)]
    return b


def info(tier):
    return {
        'assumptions': ['the reference emitter renders the reference model from the UVL grammar; sub-expressions of arithmetic/comparison operators and right-nested or equal-precedence logical operands are always parenthesised (the installed grammar orders + - * / unconventionally, a property of the uvl dependency)',
                        'surface choices: quote identifiers, redundant parentheses, several children under one mandatory/optional keyword, line comments (header, trailing), namespace/imports/include headers, [n] vs [n..n], spaces vs tabs, cardinality syntax instead of group keywords',
                        'comment-only lines inside an indented block are rejected by the installed lexer and are not emitted',
                        'positive half: token substitution on the really parsed reference document; negative half: concrete corruptions on the real files, counted apart',
                        'a corrupted document counts as negative only if the installed lexer/parser reports an error for it'],
        'coverage': {'functions_encoded': ['UVLReader.transform/process_feature/process_group/parse_cardinality/_check_feature_type/_check_feature_cardinality/_check_attributes/process_attributes/process_value/process_constraints and the constraint handlers',
                                           'UVLReader.set_parse_tree + CustomErrorListener (native)'],
                     'bounds': {'shapes': 'N<=%d' % (4 if tier == 'quick' else 5), 'name_len': 3 if tier == 'quick' else 4, 'surface': 'all 2^8 combinations natively on sampled shapes, random combinations on every shape; 2 options symbolic in the cardinality / name conditions'},
                     'stubs': ['UVL lexer contract (C01), FileStream (real in native batches)']},
    }
