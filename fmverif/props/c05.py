"""C05 - JSON round trip returns the same model, at any number of cycles."""
from __future__ import annotations

import json
import os
import random

from flamapy.metamodels.fm_metamodel.models import Attribute
from flamapy.metamodels.fm_metamodel.transformations import JSONWriter, JSONReader
from flamapy.metamodels.fm_metamodel.transformations.json_writer import to_json

from .. import refsem as R
from ..known import known
from ..runner import Cond
from .common import cards_params, indexed_shapes, totuple
from . import rt
from .c14 import _index

ID = 'C05'
LEVEL = 'model_checking'

CTCS = [
    [],
    [('IMPLIES', 'F0', 'F1'), ('XOR', 'F1', 'F0')],
    [('OR', ('NOT', 'F1'), ('AND', 'F0', 'F1')), ('EQUIVALENCE', 'F0', ('NOT', 'F1'))],
    [('REQUIRES', 'F1', 'F0'), ('EXCLUDES', 'F0', 'F1'), ('NOT', ('XOR', 'F0', ('OR', 'F1', 'F0')))],
    [('IMPLIES', 'F0', 'F1'), ('IMPLIES', 'F0', 'F1'), ('EXCLUDES', 'F1', 'F0'), ('OR', ('NOT', 'F0'), 'F1'), ('EXCLUDES', 'F1', 'F0')],      # repeated constraints (each must survive)
]


def make(shape, cards, names=None, abstract=None, ctc_code=0, attrs=None, ctc_names=None):
    n = R.n_features(shape)
    names = names or ['F%d' % i for i in range(n)]
    trees = CTCS[ctc_code] if n >= 2 else []
    trees = [_rename(t, {'F0': names[0], 'F1': names[1]}) for t in trees] if n >= 2 else []
    ctc_names = ctc_names or R.ctc_names(len(trees), n + len(cards), 'ctc %d')
    ctcs = [R.ctc(ctc_names[i], t) for i, t in enumerate(trees)]
    m = R.build(shape, cards, names=names, abstract=abstract, ctcs=ctcs)
    if attrs:
        feats = _index(m)
        for fi, aname, value in attrs:
            feats[fi].add_attribute(Attribute(aname, None, value, None))
    return m


def _rename(t, mp):
    if isinstance(t, tuple):
        return (t[0],) + tuple(_rename(x, mp) for x in t[1:])
    return mp.get(t, t)


def cycle_ok(m, cycles=3) -> bool:
    """dict-level write/read cycles from model m."""
    d = to_json(m)
    m2 = rt.json_transform(JSONReader, d)      # first read through the real transform(), later ones through parse_json()
    if not rt.same_model(m, m2, attrs=True, types=False):
        return False
    prev_d, prev_m = d, m2
    for _ in range(cycles - 1):
        d2 = to_json(prev_m)
        if d2 != prev_d:
            return False
        m3 = JSONReader.parse_json(d2)
        if not rt.same_model(prev_m, m3, attrs=True, types=False):
            return False
        if d2 != prev_d:      # the reader must not modify the object it parses
            return False
        prev_d, prev_m = d2, m3
    return True


def rt_cards(shape, cards, ctc_code) -> bool:
    return cycle_ok(make(shape, cards, ctc_code=ctc_code, attrs=[(0, 'cost', 3)]))


def rt_name(shape, pos, name, ctc_code) -> bool:
    n = R.n_features(shape)
    names = ['F%d' % i for i in range(n)]
    names[pos] = name
    return cycle_ok(make(shape, R.default_cards(shape), names=names, ctc_code=ctc_code))


def rt_flags(shape, flags, ctc_code) -> bool:
    return cycle_ok(make(shape, R.default_cards(shape), abstract=flags, ctc_code=ctc_code))


def rt_value(shape, aname, kind, ival, sval, bval) -> bool:
    n = R.n_features(shape)
    value = {0: None, 1: ival, 2: sval, 3: bval, 4: [ival, sval], 5: {'k': ival, 'm': [bval, None]}, 6: ival / 4}[kind]
    return cycle_ok(make(shape, R.default_cards(shape), ctc_code=1, attrs=[(n - 1, aname, value), (0, 'other', 'fixed')]))


def rt_ctcname(shape, cname) -> bool:
    return cycle_ok(make(shape, R.default_cards(shape), ctc_code=1, ctc_names=[cname, 'second']))


# -- file level (native) ---------------------------------------------------------------------------

def file_roundtrip(m) -> list:
    out = []
    with rt.TempDir() as d:
        p1 = os.path.join(d, 'a.json')
        text = JSONWriter(p1, m).transform()
        with open(p1, 'rb') as f:
            raw = f.read()
        if raw.decode('utf-8') != text:
            out.append('returned text differs from the file content')
        m2 = JSONReader(p1).transform()
        if not rt.same_model(m, m2, types=False):
            out.append('model read back from the file differs: %r vs %r' % (R.snapshot(m2), R.snapshot(m)))
        import copy
        obj = json.loads(text)
        keep = copy.deepcopy(obj)
        m2b = JSONReader.parse_json(obj)
        if R.snapshot(m2b) != R.snapshot(m2):
            out.append('parse_json(obj) differs from reading the file')
        if obj != keep:
            out.append('parse_json modified the JSON object it was given')
        try:
            m2c = JSONReader.parse_json(obj)      # an already-loaded object may be parsed again
            if R.snapshot(m2c) != R.snapshot(m2):
                out.append('parsing the same loaded JSON object a second time gives another model')
        except Exception as exc:
            out.append('parsing the same loaded JSON object a second time raises %s: %s' % (type(exc).__name__, exc))
        p2 = os.path.join(d, 'b.json')
        text2 = JSONWriter(p2, m2).transform()
        if text2 != text:
            out.append('second cycle text differs')
        m3 = JSONReader(p2).transform()
        if not rt.same_model(m2, m3, types=False):
            out.append('second cycle model differs')
        if JSONWriter(None, m3).transform() != text:
            out.append('third cycle text differs')
    return out


def replay_file(shape, cards, names, abstract, ctc_code, attrs):
    shape = totuple(shape)
    cards = [tuple(c) for c in cards]
    try:
        m = make(shape, cards, names=names, abstract=abstract, ctc_code=ctc_code, attrs=[tuple(a) for a in attrs] if attrs else None)
        bad = file_roundtrip(m)
    except Exception as exc:
        return ['JSON round trip raises %s: %s (shape %s cards %r names %r)' % (type(exc).__name__, exc, R.shape_str(shape), cards, names)]
    return ['%s (shape %s cards %r names %r abstract %r ctcs %d attrs %r)' % (b, R.shape_str(shape), cards, names, abstract, ctc_code, attrs) for b in bad]


def batch_files(max_n, lo, hi, seed):
    rnd = random.Random(seed)
    res = {'instances': 0, 'nontrivial': 0, 'violations': [], 'native_runs': 0}

    def run(args):
        res['instances'] += 1
        res['native_runs'] += 1
        res['nontrivial'] += 1
        bad = replay_file(*args)
        if bad:
            res['violations'].append({'label': 'file-roundtrip', 'detail': bad[0], 'replay_func': 'replay_file', 'replay_args': args})
        res['sample'] = {'shape': R.shape_str(args[0]), 'cards': args[1], 'names': args[2]}
        return len(res['violations']) >= 4
    for shape in R.shapes(max_n)[lo:hi]:
        n = R.n_features(shape)
        allc = list(R.all_cards(shape))
        from .common import zero_group_cards
        for cards in (allc if len(allc) <= 12 else rnd.sample(allc, 12)) + zero_group_cards(shape):
            if run([shape, cards, None, [rnd.random() < 0.5 for _ in range(n)], rnd.randrange(len(CTCS)), [[n - 1, 'a1', rnd.choice([None, 1, -2, 2.5, 'txt', True, [1, 'x'], {'k': [1, None]}])]]]):
                return res
    if lo == 0:
        shape = (((), ()), ((),))
        for w in rt.WEIRD_NAMES:
            for pos in (0, 1, 3):
                names = ['F0', 'F1', 'F2', 'F3']
                names[pos] = w
                if run([shape, [(1, 2), (0, 1)], names, [False, True, False, False], 3, [[1, w, w]]]):
                    return res
        import itertools
        for g in ([True, 1.0, 1], [False, 0.0, 0], [2, 2.0], [[1.0, True], [True, 1.0]], [{'k': 1.0}, {'k': True}, {'k': 1}], ['True', True, 'true'], ['1', 1, '1.0', 1.0], ['', None, 'None', 'null']):
            for perm in itertools.permutations(g):      # equal-in-Python / look-alike values of different types: the type written is the type read
                if run([shape, [(1, 2), (0, 1)], None, [False, True, False, False], 1, [[i % 4, 'v%d' % i, v] for i, v in enumerate(perm)]]):
                    return res
        for names in rt.confusable_cases(4):
            for cards, code in (([(1, 2), (0, 1)], 1), ([(2, 2), (1, 1)], 3)):
                if run([shape, cards, names, [False, True, False, False], code, [[1, names[0], names[1]], [2, names[1], names[0]]]]):
                    return res
    return res


FRAG_OPS = ['AND', 'OR', 'XOR', 'IMPLIES', 'EQUIVALENCE', 'REQUIRES', 'EXCLUDES']


def cycle_tree(tree):
    tree = totuple(tree)
    m = R.build((((), ()),), [(1, 2)], ctcs=[R.ctc('c0', tree)])
    try:
        m2 = JSONReader.parse_json(to_json(m))
        if not rt.ctcs_equivalent(m, m2, same_names=True):
            return ['constraint %r is read back as %r: not the same named, logically equivalent constraint' % (tree, [R.node_tree(c.ast.root) for c in m2.ctcs])]
        if to_json(m2) != to_json(m):
            return ['constraint %r: second write differs' % (tree,)]
    except Exception as exc:
        return ['round trip of constraint %r raises %s: %s' % (tree, type(exc).__name__, exc)]
    return []


def batch_trees(lo, hi, full):
    return rt.ctc_tree_batch(__name__, 'cycle_tree', FRAG_OPS, lo, hi, full, 'constraint-roundtrip')


def conditions(tier, seed):
    conds = []
    N = 4 if tier == 'quick' else 5
    T = 60 if tier == 'quick' else 200
    L = 3 if tier == 'quick' else 4
    imp0 = 'from fmverif.props import c05 as P\n'
    for si, shape in indexed_shapes(N, 2):
        n = R.n_features(shape)
        imp = imp0 + 'SHAPE_%d = %r\n' % (si, shape)
        cp, cpre, cexpr = cards_params(shape)
        code = (si + seed) % len(CTCS)
        dc = tuple(x for c in R.default_cards(shape) for x in c)
        conds.append(Cond(name='c05_cards_%d' % si, imports=imp, params=cp, pre=cpre, body='P.rt_cards(SHAPE_%d, %s, %d)' % (si, cexpr, code),
                          timeout=T, aspect='dict-level round trip x3, all cardinalities symbolic',
                          sample={'shape': R.shape_str(shape), 'symbolic': 'all (min,max)', 'constraints': CTCS[code]}, validate=[dc]))
        pos = (si + seed) % n
        conds.append(Cond(name='c05_name_%d' % si, imports=imp, params='name: str',
                          pre=['1 <= len(name) <= %d' % L, 'all(len(name) != len(o) or name != o for o in %r)' % (['F%d' % i for i in range(n)],)],
                          body='P.rt_name(SHAPE_%d, %d, name, %d)' % (si, pos, (code + 1) % len(CTCS)), timeout=T,
                          aspect='dict-level round trip x3, one symbolic name (any characters)',
                          sample={'shape': R.shape_str(shape), 'symbolic': 'name of feature %d' % pos}, validate=[('Zz',), ('a b',), ('"q"',), ('é',)]))
        conds.append(Cond(name='c05_flags_%d' % si, imports=imp, params=', '.join('x%d: bool' % i for i in range(n)), pre=[],
                          body='P.rt_flags(SHAPE_%d, [%s], %d)' % (si, ', '.join('x%d' % i for i in range(n)), code), timeout=T,
                          aspect='dict-level round trip x3, abstract flags symbolic', sample={'shape': R.shape_str(shape), 'symbolic': 'abstract flags'},
                          validate=[tuple([False] * n), tuple([True] * n)]))
    shape = (((), ()), ((),))
    imp = imp0 + 'SHAPE_V = %r\n' % (shape,)
    for kind in range(7):
        conds.append(Cond(name='c05_value_%d' % kind, imports=imp, params='aname: str, ival: int, sval: str, bval: bool',
                          pre=['1 <= len(aname) <= %d' % L, 'len(sval) <= %d' % L, 'aname != "other"'],
                          body='P.rt_value(SHAPE_V, aname, %d, ival, sval, bval)' % kind, timeout=T,
                          aspect='attribute name and value symbolic (kind %d: none/int/str/bool/list/map/float)' % kind,
                          sample={'kind': kind, 'symbolic': 'attribute name, int (unbounded), str, bool'}, validate=[('a', 3, 'x', True), ('b c', -1, '', False)]))
    conds.append(Cond(name='c05_ctcname', imports=imp, params='cname: str', pre=['len(cname) <= %d' % L],
                      body='P.rt_ctcname(SHAPE_V, cname)', timeout=T, aspect='constraint name symbolic', sample={'symbolic': 'constraint name'},
                      validate=[('c',), ('',)]))
    return conds


def batches(tier, seed):
    N = 4 if tier == 'quick' else 5
    total = len(R.shapes(N))
    step = total // 12 + 1
    b = [('batch_files', [N, lo, lo + step, seed + lo]) for lo in range(0, total, step)]
    full = tier != 'quick'
    nt = len(rt.ctc_family(FRAG_OPS, ['F0', 'F1', 'F2'], full))
    st = nt // 12 + 1
    b += [('batch_trees', [lo, lo + st, full]) for lo in range(0, nt, st)]
    b.append(('batch_dups', []))
    b += [('batch_impl_pairs', [lo, lo + 324]) for lo in range(0, 1296, 324)]
    return b


def _noop():
    pass


def info(tier):
    return {
        'assumptions': ['JSON fragment: Boolean features, 0 <= min <= max <= k with max >= 1, attributes with a default value only (no domain / null value), logical constraints',
                        'the json.dump/json.load boundary is a stub in the symbolic conditions (identity on JSON values) and is exercised for real in the native file runs and every replay',
                        'constraints compared one-to-one by name and z3 equivalence of name-free skeletons',
                        'n >= 1 cycles: inductive step (one cycle from an arbitrary fragment model is the identity and reproduces the same dict) + cycles 2 and 3 executed'],
        'coverage': {'functions_encoded': ['json_writer.to_json/get_tree_info/get_attributes_info/get_constraints_info/get_ctc_info/safename', 'JSONReader.parse_json',
                                           'json_reader.parse_tree/parse_attributes/parse_relations/parse_constraints/parse_ast_constraint'],
                     'bounds': {'shapes': 'N<=%d' % (4 if tier == 'quick' else 5), 'name_len': 3 if tier == 'quick' else 4, 'attribute_int': 'unbounded'},
                     'stubs': ['json.dump / json.load (identity on JSON-representable values)']},
    }


def replay_dups(k):
    """near-duplicate constraints (repeated literally / differing by letter case of a name) through the real files."""
    m = rt.dup_models()[k]
    try:
        return ['%s | constraints %r' % (b[:400], rt.DUP_CTC_SETS[k]) for b in file_roundtrip(m)]
    except Exception as exc:
        return ['round trip raises %s: %s (constraints %r)' % (type(exc).__name__, exc, rt.DUP_CTC_SETS[k])]


def batch_impl_pairs(lo, hi):
    return rt.impl_pairs_batch(__name__, lo, hi, 'constraint-roundtrip')


def batch_dups():
    return rt.dup_batch(__name__, 'json-duplicate-constraints')
