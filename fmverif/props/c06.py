"""C06 - AFM round trip returns the same model, at any number of cycles."""
from __future__ import annotations

import itertools
import random

from antlr4 import CommonTokenStream, InputStream
from antlr4.error.ErrorListener import ErrorListener
from afmparser.AFMLexer import AFMLexer
from afmparser.AFMParser import AFMParser

from flamapy.metamodels.fm_metamodel.transformations import AFMWriter, AFMReader

from .. import refsem as R
from ..known import known
from ..runner import Cond
from .common import cards_params, indexed_shapes, totuple
from . import rt, afmio
from .uvltok import NoTracing, _Collect
from .c14 import _index

ID = 'C06'
LEVEL = 'model_checking'

NAMES = ['Root', 'Aa', 'Bb', 'Cc', 'Dd', 'Ee', 'Ff']
AFM_OPS = ['AND', 'OR', 'IMPLIES', 'EQUIVALENCE', 'REQUIRES', 'EXCLUDES']
KEYWORDS = [x.strip("'") for x in AFMParser.literalNames if x.startswith("'") and x.strip("'").isalpha()]
UPPER = 'ABCDEFGHIJKLMNOPQRSTUVWXYZ'
WORDREST = UPPER + UPPER.lower() + '0123456789'


def same_s(a, b):
    return len(a) == len(b) and a == b


def is_word(piece) -> bool:
    """lexer contract for WORD: [A-Z][a-zA-Z0-9]* and not a keyword (validated natively)."""
    if len(piece) == 0 or piece[0] not in UPPER:
        return False
    for ch in piece[1:]:
        if ch not in WORDREST:
            return False
    for kw in KEYWORDS:
        if same_s(piece, kw):
            return False
    return True


def parse_text(text):
    lexer = AFMLexer(InputStream(text))
    errs = _Collect()
    lexer.removeErrorListeners()
    lexer.addErrorListener(errs)
    stream = CommonTokenStream(lexer)
    parser = AFMParser(stream)
    parser.removeErrorListeners()
    parser.addErrorListener(errs)
    tree = parser.feature_model()
    return tree, list(stream.tokens), errs.errors


def reader_on(tree):
    rd = AFMReader('/nonexistent/t.afm')
    rd.set_parse_tree = lambda: None
    rd.parse_tree = tree
    return rd


def in_fragment_shape(shape) -> bool:
    return True


def fragment_pre(shape) -> list:
    pre = []
    for ri, (p, cs) in enumerate(R.relations_of(shape)):
        k = len(cs)
        pre.append(('0 <= a%d <= 1 and b%d == 1' % (ri, ri)) if k == 1 else ('0 <= a%d <= b%d <= %d' % (ri, ri, k)))
    return pre


def fragment_cards(shape):
    opts = [([(0, 1), (1, 1)] if len(cs) == 1 else [(a, b) for a in range(len(cs) + 1) for b in range(a, len(cs) + 1)]) for _, cs in R.relations_of(shape)]      # groups: every 0 <= a <= b <= k, also [0,0]
    return [list(c) for c in itertools.product(*opts)]


def rt_cards(shape, cards) -> bool:
    r = cards_doc(shape, cards)
    if r is None:
        return False
    m, m2, whole_ok = r
    return whole_ok and afmio.same(m, m2)


def cards_doc(shape, cards):
    """group cardinalities symbolic: writer leaf -> INT tokens of the real parse tree -> reader."""
    n = R.n_features(shape)
    rels = R.relations_of(shape)
    names = NAMES[:n]
    m = afmio.make(shape, cards, names=names)
    relobjs = []

    def walk(f):
        for r in f.relations:
            relobjs.append(r)
            for c in r.children:
                walk(c)
    walk(m.root)
    pieces = [AFMWriter.read_relation(r) for r in relobjs]
    tcards = []
    for ri, (p, cs) in enumerate(rels):
        if len(cs) == 1:
            # the writer decides between 'Name' and '[Name]' on the symbolic cardinality
            if same_s(pieces[ri], names[cs[0]]):
                tcards.append((1, 1))
            elif same_s(pieces[ri], '[' + names[cs[0]] + ']'):
                tcards.append((0, 1))
            else:
                return None
        else:
            tcards.append((40 + ri, 60 + ri))
    with NoTracing():
        ttext = AFMWriter(None, afmio.make(shape, tcards, names=names)).transform()
        tree, tokens, errs = parse_text(ttext)
        if errs:
            raise RuntimeError('template does not parse: %r' % errs)
        toks = [(t, t.text) for t in tokens]
    expected = ttext
    for ri, (p, cs) in enumerate(rels):
        if len(cs) > 1:
            a, b = cards[ri]
            for t, txt in toks:
                if txt == str(40 + ri):
                    t.text = str(a)
                elif txt == str(60 + ri):
                    t.text = str(b)
            i = expected.find('[%d,%d]' % (40 + ri, 60 + ri))
            expected = expected[:i] + '[' + str(a) + ',' + str(b) + ']' + expected[i + len('[%d,%d]' % (40 + ri, 60 + ri)):]
    m2 = reader_on(tree).transform()
    whole = AFMWriter(None, m).transform()
    return m, m2, same_s(whole, expected)


def rt_name(shape, pos, name, with_ctc) -> bool:
    n = R.n_features(shape)
    names = NAMES[:n]
    names = list(names)
    names[pos] = name
    other = names[(pos + 1) % n]
    trees = [('REQUIRES', name, other), ('OR', ('NOT', name), other)] if with_ctc else []
    cards = fragment_cards(shape)[-1]
    attrs = [(pos, 'cost', ('range', 0, 5), '1', '0')]
    m = afmio.make(shape, cards, names=names, trees=trees, attrs=attrs)
    if not is_word(name):
        return True      # outside the AFM fragment (pre-condition restated)
    tnames = list(names)
    tnames[pos] = 'Pqzx'
    ttrees = [('REQUIRES', 'Pqzx', other), ('OR', ('NOT', 'Pqzx'), other)] if with_ctc else []
    with NoTracing():
        ttext = AFMWriter(None, afmio.make(shape, cards, names=tnames, trees=ttrees, attrs=attrs)).transform()
        tree, tokens, errs = parse_text(ttext)
        if errs:
            raise RuntimeError('template does not parse: %r' % errs)
        slots = [t for t in tokens if t.text == 'Pqzx']
        parts = ttext.split('Pqzx')
    for t in slots:
        t.text = name
    m2 = reader_on(tree).transform()
    whole = AFMWriter(None, m).transform()
    expected = parts[0]
    for p in parts[1:]:
        expected = expected + name + p
    if not same_s(whole, expected):
        return False
    return afmio.same(m, m2)


def rt_range(lo, hi, dflt) -> bool:
    shape = (((), ()),)
    names = NAMES[:3]
    m = afmio.make(shape, [(1, 2)], names=names, attrs=[(1, 'cost', ('range', lo, hi), str(dflt), '0'), (2, 'lvl', ('enum', ['a', 'b']), 'a', 'b')])
    with NoTracing():
        ttext = AFMWriter(None, afmio.make(shape, [(1, 2)], names=names, attrs=[(1, 'cost', ('range', 4444, 5555), '6666', '0'), (2, 'lvl', ('enum', ['a', 'b']), 'a', 'b')])).transform()
        tree, tokens, errs = parse_text(ttext)
        if errs:
            raise RuntimeError('template does not parse: %r' % errs)
        toks = [(t, t.text) for t in tokens]
    for t, txt in toks:
        if txt == '4444':
            t.text = str(lo)
        elif txt == '5555':
            t.text = str(hi)
        elif txt == '6666':
            t.text = str(dflt)
    m2 = reader_on(tree).transform()
    return afmio.same(m, m2)


def rt_ranges(k, bounds, dflt) -> bool:
    """an integer domain made of k ranges (k concrete, all bounds and the default symbolic)."""
    shape = (((), ()),)
    names = NAMES[:3]
    rng = [(bounds[2 * i], bounds[2 * i + 1]) for i in range(k)]
    m = afmio.make(shape, [(1, 2)], names=names, attrs=[(1, 'cost', ('ranges', rng), str(dflt), '0'), (2, 'lvl', ('enum', ['a', 'b']), 'a', 'b')])
    ph = [(4000 + 2 * i, 4001 + 2 * i) for i in range(k)]
    with NoTracing():
        ttext = AFMWriter(None, afmio.make(shape, [(1, 2)], names=names, attrs=[(1, 'cost', ('ranges', ph), '6666', '0'), (2, 'lvl', ('enum', ['a', 'b']), 'a', 'b')])).transform()
        tree, tokens, errs = parse_text(ttext)
        if errs:
            raise RuntimeError('template does not parse: %r' % errs)
        toks = [(t, t.text) for t in tokens]
    # the text the real writer produces for the symbolic attribute must be the template text with the placeholders replaced
    attr = [a for f in _index(m) for a in f.attributes if a.name == 'cost'][0]
    piece = AFMWriter.read_attribute(attr)
    with NoTracing():
        tattr = [a for f in _index(afmio.make(shape, [(1, 2)], names=names, attrs=[(1, 'cost', ('ranges', ph), '6666', '0')])) for a in f.attributes if a.name == 'cost'][0]
        tpiece = AFMWriter.read_attribute(tattr)
    expected = tpiece
    for i in range(k):
        expected = expected.replace(str(ph[i][0]), '\x00%d\x00' % (2 * i)).replace(str(ph[i][1]), '\x00%d\x00' % (2 * i + 1))
    parts = expected.replace('6666', '\x00d\x00').split('\x00')
    built = ''
    for j, part in enumerate(parts):
        if j % 2 == 0:
            built = built + part
        elif part == 'd':
            built = built + str(dflt)
        else:
            built = built + str(bounds[int(part)])
    if not same_s(piece, built):
        return False
    for t, txt in toks:
        if txt == '6666':
            t.text = str(dflt)
        else:
            for i in range(k):
                if txt == str(ph[i][0]):
                    t.text = str(bounds[2 * i])
                elif txt == str(ph[i][1]):
                    t.text = str(bounds[2 * i + 1])
    m2 = reader_on(tree).transform()
    return afmio.same(m, m2)


# -- native --------------------------------------------------------------------------------------

def replay_file(shape, cards, names, attrs, trees):
    shape = totuple(shape)
    cards = [tuple(c) for c in cards]
    trees = [totuple(t) for t in (trees or [])]
    at = [(a[0], a[1], (a[2][0],) + tuple(a[2][1:]), a[3], a[4]) for a in attrs] if attrs else None
    try:
        bad = afmio.file_roundtrip(afmio.make(shape, cards, names=names, attrs=at, trees=trees))
    except Exception as exc:
        bad = ['round trip raises %s: %s' % (type(exc).__name__, exc)]
    return ['%s | shape %s cards %r names %r attrs %r ctcs %r' % (b[:300], R.shape_str(shape), cards, names, attrs, trees) for b in bad]


def batch_files(max_n, lo, hi, seed):
    rnd = random.Random(seed)
    res = {'instances': 0, 'nontrivial': 0, 'violations': [], 'native_runs': 0}
    for shape in R.shapes(max_n)[lo:hi]:
        n = R.n_features(shape)
        names = NAMES[:n]
        allc = fragment_cards(shape)
        for cards in (allc if len(allc) <= 10 else rnd.sample(allc, 10)):
            attrs = []
            for fi in range(n):
                if rnd.random() < 0.4:
                    attrs.append([fi, 'a%d' % fi, ['range', rnd.randint(0, 5), rnd.randint(5, 30)], str(rnd.randint(0, 9)), '0'])
                if rnd.random() < 0.25:      # bounds of different digit counts (text order differs from numeric order), equal bounds, zero
                    lo_, hi_ = rnd.choice([(5, 10), (8, 48), (64, 108), (9, 10), (99, 100), (0, 0), (7, 7), (2, 1000), (0, 9), (10, 10)])
                    attrs.append([fi, 'w%d' % fi, ['range', lo_, hi_], str(lo_), str(hi_)])
                if rnd.random() < 0.3:
                    lo0 = rnd.randint(0, 3)
                    rngs = [[lo0 + 10 * j, lo0 + 10 * j + rnd.randint(0, 8)] for j in range(rnd.randint(2, 4))]
                    attrs.append([fi, 'r%d' % fi, ['ranges', rngs], str(rngs[-1][0]), '0'])
                if rnd.random() < 0.3:
                    attrs.append([fi, 'lvl%d' % fi, ['enum', ['low', 'mid', 'high'][:rnd.randint(1, 3)]], 'low', 'high'])
                if rnd.random() < 0.4:       # every kind of value text the format carries (one value_spec token each, probed on the installed lexer)
                    pool = value_texts()
                    els = rnd.sample(pool, rnd.randint(1, min(4, len(pool))))
                    attrs.append([fi, 'v%d' % fi, ['enum', els], rnd.choice(els + pool[:2]), rnd.choice(pool)])
            trees = []
            if n >= 3:
                pool = [t for t in R.logical_trees(names[:3], 1) if isinstance(t, tuple) and 'XOR' not in t]
                trees = [rnd.choice(pool) for _ in range(rnd.randint(0, 2))]
            args = [shape, cards, names, attrs, trees]
            res['instances'] += 1
            res['native_runs'] += 1
            res['nontrivial'] += 1
            bad = replay_file(*args)
            if bad:
                res['violations'].append({'label': 'afm-file-roundtrip', 'detail': bad[0], 'replay_func': 'replay_file', 'replay_args': args})
                if len(res['violations']) >= 4:
                    return res
            res['sample'] = {'shape': R.shape_str(shape), 'cards': cards, 'attrs': attrs, 'ctcs': trees}
    return res


_VALUE_TEXTS = []


def value_texts():
    """texts that the installed AFM lexer delivers as exactly one token of a class admitted by `value_spec`
    (WORD | LOWERCASE | INT | DOUBLE | STRING): candidates of every class, filtered through the real lexer."""
    if _VALUE_TEXTS:
        return _VALUE_TEXTS
    from antlr4 import InputStream
    from afmparser.AFMLexer import AFMLexer
    from afmparser.AFMParser import AFMParser
    ok = {getattr(AFMParser, k) for k in ('WORD', 'LOWERCASE', 'INT', 'DOUBLE', 'STRING') if hasattr(AFMParser, k)}
    cand = ['low', 'x9', 'High', 'A1b', '0', '7', '42', '100', '1.5', '2.0', '10.25', '0.5', '"two words"', '"x"', '"1.5"', '"a,b"', '"7"', '"High"']
    for t in cand:
        lx = AFMLexer(InputStream(t))
        lx.removeErrorListeners()
        toks = lx.getAllTokens()
        if len(toks) == 1 and toks[0].type in ok and toks[0].text == t:
            _VALUE_TEXTS.append(t)
    return _VALUE_TEXTS


def batch_names(lo, hi):
    alpha = ['A', 'Z', 'b', 'y', '0', '9']
    cand = [a for a in alpha if a in UPPER] + [a + b for a in alpha if a in UPPER for b in alpha] + [a + b + c for a in 'AZ' for b in alpha for c in alpha]
    cand += ['Abs', 'Max', 'Min', 'Sum', 'Cos', 'Sin', 'To', 'Integer1', 'And', 'Or', 'Not', 'Iff', 'Requires', 'X' * 30, 'ANDx', 'NOTa', 'IFF2']
    cand = [c for c in dict.fromkeys(cand) if is_word(c)]
    res = {'instances': 0, 'nontrivial': 0, 'violations': [], 'native_runs': 0}
    shape = (((), ()), ((),))
    for w in cand[lo:hi]:
        for pos in (0, 1, 3):
            names = ['Root', 'Aa', 'Bb', 'Cc']
            names[pos] = w
            args = [shape, [(1, 2), (0, 1)], names, [[pos, 'cost', ['range', 0, 9], '1', '0']], [('REQUIRES', w, 'Bb'), ('OR', ('NOT', w), ('AND', 'Bb', w))]]
            res['instances'] += 1
            res['native_runs'] += 1
            res['nontrivial'] += 1
            bad = replay_file(*args)
            if bad:
                res['violations'].append({'label': 'afm-name', 'detail': bad[0], 'replay_func': 'replay_file', 'replay_args': args})
                if len(res['violations']) >= 4:
                    return res
    if lo == 0:
        for lst in (['Abc', 'ABC', 'AbC', 'ABc'], ['F1', 'F10', 'F', 'F01'], ['A', 'Aa', 'AA', 'Aaa'], ['X0', 'XO', 'Xo', 'X00']):
            for names in (lst, list(reversed(lst))):
                args = [shape, [(1, 2), (0, 1)], names, [[1, 'cost', ['range', 0, 9], '1', '0'], [2, 'cost', ['enum', ['lo', 'hi']], 'lo', 'hi']],
                        [('REQUIRES', names[1], names[2]), ('OR', ('NOT', names[3]), ('AND', names[2], names[1]))]]
                res['instances'] += 1
                res['native_runs'] += 1
                res['nontrivial'] += 1
                bad = replay_file(*args)
                if bad:
                    res['violations'].append({'label': 'afm-name', 'detail': bad[0], 'replay_func': 'replay_file', 'replay_args': args})
    # lexer contract validation
    for w in cand[lo:hi] + KEYWORDS + ['aB', 'A_b', '1A']:
        lexer = AFMLexer(InputStream(w))
        errs = _Collect()
        lexer.removeErrorListeners()
        lexer.addErrorListener(errs)
        toks = []
        while True:
            t = lexer.nextToken()
            if t.type == -1:
                break
            toks.append(t)
        real = (not errs.errors and len(toks) == 1 and AFMParser.symbolicNames[toks[0].type] == 'WORD')
        if real != is_word(w):
            raise RuntimeError('WORD contract disagrees with the installed AFM lexer on %r' % w)
    res['sample'] = {'names': cand[lo:hi][:6]}
    return res


def cycle_tree(tree):
    tree = totuple(tree)

    def ren(t):
        if isinstance(t, tuple):
            return (t[0],) + tuple(ren(x) for x in t[1:])
        return {'F0': 'Aa', 'F1': 'Bb', 'F2': 'Cc'}[t]
    return replay_file((((), ()), ((),)), [(1, 2), (0, 1)], ['Root', 'Aa', 'Bb', 'Cc'], None, [ren(tree)])


def batch_trees(lo, hi, full):
    return rt.ctc_tree_batch(__name__, 'cycle_tree', AFM_OPS, lo, hi, full, 'afm-constraint-roundtrip', names=(['F0', 'F1', 'F2'] if full else ['F0', 'F1']))


def conditions(tier, seed):
    conds = []
    N = 4 if tier == 'quick' else 5
    T = 90 if tier == 'quick' else 300
    L = 3 if tier == 'quick' else 4
    imp0 = 'from fmverif.props import c06 as P\n'
    for si, shape in indexed_shapes(N, 2):
        n = R.n_features(shape)
        imp = imp0 + 'SHAPE_%d = %r\n' % (si, shape)
        cp, _, cexpr = cards_params(shape)
        fc = fragment_cards(shape)
        conds.append(Cond(name='c06_cards_%d' % si, imports=imp, params=cp, pre=fragment_pre(shape), body='P.rt_cards(SHAPE_%d, %s)' % (si, cexpr), timeout=T,
                          aspect='AFM writer leaf -> INT / WORD tokens on the real parse tree -> reader; whole writer text tied to the pieces',
                          sample={'shape': R.shape_str(shape), 'symbolic': 'all cardinalities in the AFM fragment'},
                          validate=[tuple(x for c in fc[0] for x in c), tuple(x for c in fc[-1] for x in c)]))
        if tier == 'quick' and n > 3:
            continue
        pos = (si + seed) % n
        for with_ctc in (0, 1):
            conds.append(Cond(name='c06_name_%d_%d' % (si, with_ctc), imports=imp, params='name: str',
                              pre=['1 <= len(name) <= %d' % L, 'P.is_word(name)', 'all(len(name) != len(o) or name != o for o in %r)' % (NAMES[:n] + ['Pqzx'],)],
                              body='P.rt_name(SHAPE_%d, %d, name, %d)' % (si, pos, with_ctc), timeout=T,
                              aspect='WORD name -> token -> reader (relationships, attributes' + (', constraints)' if with_ctc else ')'),
                              sample={'shape': R.shape_str(shape), 'symbolic': 'name of feature %d over the WORD alphabet' % pos}, validate=[('Zz',), ('A1',), ('X',)]))
    conds.append(Cond(name='c06_range', imports=imp0, params='lo: int, hi: int, dflt: int', pre=['0 <= lo <= hi <= 99', '0 <= dflt <= 99'],
                      body='P.rt_range(lo, hi, dflt)', timeout=T, aspect='integer range domain and default value -> INT tokens -> reader',
                      sample={'symbolic': 'range bounds and default (two digits)'}, validate=[(0, 10, 5), (7, 7, 7)]))
    for k in ((2, 3) if tier == 'quick' else (2, 3, 4)):
        bp = ', '.join('b%d: int' % i for i in range(2 * k))
        conds.append(Cond(name='c06_ranges_%d' % k, imports=imp0, params=bp + ', dflt: int',
                          pre=['0 <= b%d <= b%d <= 99' % (2 * i, 2 * i + 1) for i in range(k)] + ['0 <= dflt <= 99'],
                          body='P.rt_ranges(%d, [%s], dflt)' % (k, ', '.join('b%d' % i for i in range(2 * k))), timeout=T,
                          aspect='integer domain of %d ranges: writer text tied to the pieces, INT tokens -> reader' % k,
                          sample={'symbolic': 'bounds of %d ranges and the default (two digits)' % k},
                          validate=[tuple([1, 5, 7, 10, 12, 12, 20, 30][:2 * k]) + (5,), tuple([0] * (2 * k)) + (0,)]))
    return conds


def batches(tier, seed):
    N = 4 if tier == 'quick' else 5
    total = len(R.shapes(N))
    step = total // 8 + 1
    b = [('batch_files', [N, lo, lo + step, seed + lo]) for lo in range(0, total, step)]
    b += [('batch_names', [lo, lo + 30]) for lo in range(0, 120, 30)]
    full = tier != 'quick'
    nt = len(rt.ctc_family(AFM_OPS, ['F0', 'F1', 'F2'] if full else ['F0', 'F1'], full))
    st = nt // 12 + 1
    b += [('batch_trees', [lo, lo + st, full]) for lo in range(0, nt, st)]
    b.append(('batch_dups', []))
    b += [('batch_impl_pairs', [lo, lo + 324]) for lo in range(0, 1296, 324)]
    return b


def _noop():
    pass


def info(tier):
    return {
        'assumptions': ['AFM fragment: feature names are WORD tokens ([A-Z][A-Za-z0-9]*, not a keyword), attribute names LOWERCASE tokens, single children mandatory/optional, groups [a,b] with 0<=a<=b<=k (also [0,0]); integer-range domains with non-negative bounds or enumerated domains; default/null values as texts',
                        'the order of the relations of one parent is not carried by the format (single children are read before groups): trees are compared without that order; from the first read on nothing changes any more',
                        'token substitution on the real AFM parse tree; WORD contract validated against the installed lexer',
                        'constraint names are not carried by the format'],
        'coverage': {'functions_encoded': ['AFMWriter.transform/serialize_relationships/recursive_relationship_read/read_relation/serialize_attributes/read_attribute/serialize_constraints/recursive_constraint_read/read_operand',
                                           'AFMReader.transform/set_relations/set_root_feature/set_child_features/read_children/set_attributes/read_attribute/set_constraints/read_expression/build_ast_node'],
                     'bounds': {'shapes': 'N<=%d' % (4 if tier == 'quick' else 5), 'name_len': 3 if tier == 'quick' else 4, 'range_ints': '0..99'},
                     'stubs': ['AFM lexer (contract), afmparser.get_tree / FileStream (real in native batches)']},
    }


def replay_dups(k):
    """near-duplicate constraints (repeated literally / differing by letter case of a name) through the real files."""
    m = rt.dup_models()[k]
    try:
        return ['%s | constraints %r' % (b[:400], rt.DUP_CTC_SETS[k]) for b in afmio.file_roundtrip(m)]
    except Exception as exc:
        return ['round trip raises %s: %s (constraints %r)' % (type(exc).__name__, exc, rt.DUP_CTC_SETS[k])]


def batch_impl_pairs(lo, hi):
    return rt.impl_pairs_batch(__name__, lo, hi, 'afm-constraint-roundtrip')


def batch_dups():
    return rt.dup_batch(__name__, 'afm-duplicate-constraints')
