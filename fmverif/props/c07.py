"""C07 - FeatureIDE round trip returns the same model, at any number of cycles."""
from __future__ import annotations

import itertools
import os
import random
from xml.etree import ElementTree

from flamapy.metamodels.fm_metamodel.models import FeatureModel
from flamapy.metamodels.fm_metamodel.transformations import FeatureIDEWriter, FeatureIDEReader
from flamapy.metamodels.fm_metamodel.transformations.featureide_writer import _to_featureidexml

from .. import refsem as R
from ..known import known
from ..runner import Cond
from .common import cards_params, indexed_shapes, totuple
from . import rt
from .c05 import _rename

ID = 'C07'
LEVEL = 'model_checking'

# constraints of the FeatureIDE fragment (no xor)
CTCS = [
    [],
    [('IMPLIES', 'F0', 'F1'), ('OR', ('NOT', 'F1'), ('AND', 'F0', 'F1'))],
    [('EQUIVALENCE', 'F0', ('NOT', 'F1')), ('REQUIRES', 'F1', 'F0'), ('EXCLUDES', 'F0', 'F1')],
    ['F1', ('NOT', 'F0'), ('NOT', ('AND', 'F0', ('OR', 'F1', 'F0')))],
    [('EXCLUDES', ('AND', 'F0', 'F1'), ('NOT', 'F1')), ('IMPLIES', ('EQUIVALENCE', 'F0', 'F1'), 'F1')],
    [('IMPLIES', 'F0', 'F1'), ('IMPLIES', 'F0', 'F1'), ('EXCLUDES', 'F1', 'F0'), ('OR', ('NOT', 'F0'), 'F1'), ('EXCLUDES', 'F1', 'F0')],      # repeated constraints (each must survive)
]


def in_fragment_shape(shape) -> bool:
    """each feature: only single-child relations, or exactly one relation that is a group."""
    rels = R.relations_of(shape)
    for rs in R.rels_by_parent(shape):
        groups = [ri for ri in rs if len(rels[ri][1]) > 1]
        if groups and len(rs) != 1:
            return False
    return True


def fragment_pre(shape) -> list:
    rels = R.relations_of(shape)
    pre = []
    for ri, (p, cs) in enumerate(rels):
        k = len(cs)
        if k == 1:
            pre.append('0 <= a%d <= 1 and b%d == 1' % (ri, ri))
        else:
            pre.append('a%d == 1 and (b%d == 1 or b%d == %d)' % (ri, ri, ri, k))
    return pre


def fragment_cards(shape):
    rels = R.relations_of(shape)
    opts = [([(0, 1), (1, 1)] if len(cs) == 1 else [(1, 1), (1, len(cs))]) for _, cs in rels]
    return [list(c) for c in itertools.product(*opts)]


def make(shape, cards, names=None, abstract=None, ctc_code=0):
    n = R.n_features(shape)
    names = names or ['F%d' % i for i in range(n)]
    trees = [_rename(t, {'F0': names[0], 'F1': names[1]}) for t in CTCS[ctc_code]] if n >= 2 else []
    cn = R.ctc_names(len(trees), n + len(cards))
    return R.build(shape, cards, names=names, abstract=abstract, ctcs=[R.ctc(cn[i], t) for i, t in enumerate(trees)])


def read_tree(tree: ElementTree.ElementTree) -> FeatureModel:
    """The body of FeatureIDEReader._read_feature_model without the file parser (stub boundary)."""
    return rt.xml_transform(FeatureIDEReader, tree)


def etree_desc(elem):
    return (elem.tag, tuple(sorted(elem.attrib.items())), elem.text, tuple(etree_desc(c) for c in elem))


def same(m1, m2) -> bool:
    return rt.tree_snapshot(m1, attrs=False, types=False) == rt.tree_snapshot(m2, attrs=False, types=False) and \
        rt.ctcs_equivalent(m1, m2, same_names=False)


def cycle_ok(m, cycles=3) -> bool:
    """cycle 1: same tree, equivalent constraints.  From then on nothing changes any further: the
    model read in cycle n+1 is structurally identical to the one read in cycle n and so is the XML
    (iff is normalised to two implications by the first read, so the first text may differ)."""
    t = _to_featureidexml(m)
    m2 = read_tree(t)
    if not same(m, m2):
        return False
    t2 = _to_featureidexml(m2)
    m3 = read_tree(t2)
    if R.snapshot(m3, with_attrs=False, with_types=False) != R.snapshot(m2, with_attrs=False, with_types=False):
        return False
    t3 = _to_featureidexml(m3)
    return etree_desc(t3.getroot()) == etree_desc(t2.getroot())


def rt_cards(shape, cards, ctc_code) -> bool:
    return cycle_ok(make(shape, cards, ctc_code=ctc_code))


def rt_name(shape, pos, name, ctc_code) -> bool:
    n = R.n_features(shape)
    names = ['F%d' % i for i in range(n)]
    names[pos] = name
    return cycle_ok(make(shape, fragment_cards(shape)[-1], names=names, ctc_code=ctc_code))


def rt_flags(shape, flags, ctc_code) -> bool:
    return cycle_ok(make(shape, fragment_cards(shape)[0], abstract=flags, ctc_code=ctc_code))


def file_roundtrip(m) -> list:
    out = []
    with rt.TempDir() as d:
        p1 = os.path.join(d, 'a.xml')
        data = FeatureIDEWriter(p1, m).transform()
        with open(p1, 'rb') as f:
            raw = f.read()
        if raw != data:
            out.append('returned value differs from the file content')
        m2 = FeatureIDEReader(p1).transform()
        if not same(m, m2):
            out.append('model read back differs: %r vs %r' % (R.snapshot(m2), R.snapshot(m)))
        p2 = os.path.join(d, 'b.xml')
        data2 = FeatureIDEWriter(p2, m2).transform()
        m3 = FeatureIDEReader(p2).transform()
        if R.snapshot(m3, with_attrs=False, with_types=False) != R.snapshot(m2, with_attrs=False, with_types=False):
            out.append('second cycle model differs from the first-cycle model')
        if FeatureIDEWriter(None, m3).transform() != data2:
            out.append('third cycle output differs from the second')
    return out


def xml_ok(s: str) -> bool:
    """XML-representable: XML 1.0 Char production, and no leading/trailing blanks (attribute-value
    normalisation would not keep them anyway inside element text of <var>)."""
    for ch in s:
        o = ord(ch)
        if not (o in (0x9, 0xA, 0xD) or 0x20 <= o <= 0xD7FF or 0xE000 <= o <= 0xFFFD or 0x10000 <= o <= 0x10FFFF):
            return False
    return True


def replay_file(shape, cards, names, abstract, ctc_code):
    shape = totuple(shape)
    cards = [tuple(c) for c in cards]
    try:
        bad = file_roundtrip(make(shape, cards, names=names, abstract=abstract, ctc_code=ctc_code))
    except Exception as exc:
        return ['FeatureIDE round trip raises %s: %s (shape %s cards %r names %r ctcs %d)' % (type(exc).__name__, exc, R.shape_str(shape), cards, names, ctc_code)]
    return ['%s (shape %s cards %r names %r ctcs %d)' % (b, R.shape_str(shape), cards, names, ctc_code) for b in bad]


def batch_files(max_n, lo, hi, seed):
    rnd = random.Random(seed)
    res = {'instances': 0, 'nontrivial': 0, 'violations': [], 'native_runs': 0}

    def run(args):
        res['instances'] += 1
        res['native_runs'] += 1
        res['nontrivial'] += 1
        bad = replay_file(*args)
        if bad:
            res['violations'].append({'label': 'file-roundtrip', 'detail': bad[0], 'replay_func': 'replay_file', 'replay_args': args})
        res['sample'] = {'shape': R.shape_str(args[0]), 'cards': args[1], 'names': args[2]}
        return len(res['violations']) >= 4
    shapes = [s for s in R.shapes(max_n) if in_fragment_shape(s)]
    for shape in shapes[lo:hi]:
        n = R.n_features(shape)
        allc = fragment_cards(shape)
        for cards in (allc if len(allc) <= 8 else rnd.sample(allc, 8)):
            for code in ([0, rnd.randrange(1, len(CTCS))] if n >= 2 else [0]):
                if run([shape, cards, None, [rnd.random() < 0.4 for _ in range(n)], code]):
                    return res
    if lo == 0:
        shape = (((),), ((((), ()),),))
        for w in rt.WEIRD_NAMES:
            if not xml_ok(w) or w != w.strip() or '\t' in w:
                continue    # attribute-value normalisation turns tabs/newlines into blanks: not representable in an XML attribute
            for pos in (0, 1, 3):
                names = ['F0', 'F1', 'F2', 'F3', 'F4']
                names[pos] = w
                if run([shape, [(1, 1), (0, 1), (1, 2)], names, [False, True, False, False, False], 2]):
                    return res
        for names in rt.confusable_cases(5, ok=lambda w: xml_ok(w) and '\t' not in w):
            for code in (1, 2):
                if run([shape, [(1, 1), (0, 1), (1, 2)], names, [False, True, False, False, False], code]):
                    return res
    return res


FRAG_OPS = ['AND', 'OR', 'IMPLIES', 'EQUIVALENCE', 'REQUIRES', 'EXCLUDES']


def cycle_tree(tree):
    """one constraint tree on a fixed model through write/read at Element level (twice)."""
    tree = totuple(tree)
    shape = (((), ()),)
    m = R.build(shape, [(1, 2)], ctcs=[R.ctc('c0', tree)])
    try:
        m2 = read_tree(_to_featureidexml(m))
        if not rt.ctcs_equivalent(m, m2, same_names=False):
            return ['constraint %r is read back as %r: not logically equivalent' % (tree, [R.node_tree(c.ast.root) for c in m2.ctcs])]
        m3 = read_tree(_to_featureidexml(m2))
        if R.snapshot(m3, with_attrs=False, with_types=False) != R.snapshot(m2, with_attrs=False, with_types=False):
            return ['constraint %r changes again in the second cycle' % (tree,)]
    except Exception as exc:
        return ['round trip of constraint %r raises %s: %s' % (tree, type(exc).__name__, exc)]
    return []


def batch_trees(lo, hi, full):
    return rt.ctc_tree_batch(__name__, 'cycle_tree', FRAG_OPS, lo, hi, full, 'constraint-roundtrip')


def conditions(tier, seed):
    conds = []
    N = 4 if tier == 'quick' else 5
    T = 60 if tier == 'quick' else 200
    L = 3 if tier == 'quick' else 4
    imp0 = 'from fmverif.props import c07 as P\n'
    for si, shape in indexed_shapes(N, 2):
        if not in_fragment_shape(shape):
            continue
        n = R.n_features(shape)
        imp = imp0 + 'SHAPE_%d = %r\n' % (si, shape)
        cp, _, cexpr = cards_params(shape)
        code = (si + seed) % len(CTCS)
        fc = fragment_cards(shape)
        conds.append(Cond(name='c07_cards_%d' % si, imports=imp, params=cp, pre=fragment_pre(shape), body='P.rt_cards(SHAPE_%d, %s, %d)' % (si, cexpr, code),
                          timeout=T, aspect='Element-level round trip x3, cardinalities symbolic within the FeatureIDE fragment',
                          sample={'shape': R.shape_str(shape), 'symbolic': 'all (min,max) in the fragment', 'constraints': CTCS[code]},
                          validate=[tuple(x for c in fc[0] for x in c), tuple(x for c in fc[-1] for x in c)]))
        pos = (si + seed) % n
        conds.append(Cond(name='c07_name_%d' % si, imports=imp, params='name: str',
                          pre=['1 <= len(name) <= %d' % L, 'all(len(name) != len(o) or name != o for o in %r)' % (['F%d' % i for i in range(n)],), 'P.xml_ok(name)'],
                          body='P.rt_name(SHAPE_%d, %d, name, %d)' % (si, pos, (code + 1) % len(CTCS)), timeout=T,
                          aspect='Element-level round trip x3, one symbolic XML-representable name',
                          sample={'shape': R.shape_str(shape), 'symbolic': 'name of feature %d' % pos}, validate=[('Zz',), ('a b',), ('"q"',), ('é<',)]))
        conds.append(Cond(name='c07_flags_%d' % si, imports=imp, params=', '.join('x%d: bool' % i for i in range(n)), pre=[],
                          body='P.rt_flags(SHAPE_%d, [%s], %d)' % (si, ', '.join('x%d' % i for i in range(n)), (code + 2) % len(CTCS)), timeout=T,
                          aspect='Element-level round trip x3, abstract flags symbolic', sample={'shape': R.shape_str(shape), 'symbolic': 'abstract flags'},
                          validate=[tuple([False] * n), tuple([True] * n)]))
    return conds


def batches(tier, seed):
    N = 4 if tier == 'quick' else 5
    total = len([s for s in R.shapes(N) if in_fragment_shape(s)])
    step = total // 12 + 1
    b = [('batch_files', [N, lo, lo + step, seed + lo]) for lo in range(0, total, step)]
    full = tier != 'quick'
    nt = len(rt.ctc_family(FRAG_OPS, ['F0', 'F1', 'F2'], full))
    st = nt // 12 + 1
    b += [('batch_trees', [lo, lo + st, full]) for lo in range(0, nt, st)]
    b.append(('batch_dups', []))
    b += [('batch_impl_pairs', [lo, lo + 324]) for lo in range(0, 1296, 324)]
    return b


def _noop():
    pass


def info(tier):
    return {
        'assumptions': ['FeatureIDE fragment: a feature has only mandatory/optional single children, or exactly one or-/alternative group; constraints without xor; a single literal is a constraint',
                        'names: XML 1.0 characters; in the file runs additionally no tab/newline and no leading/trailing blank (XML attribute-value normalisation does not keep them)',
                        'ElementTree.tostring / minidom / ElementTree.parse are a stub in the symbolic conditions (identity on Element trees) and run for real in the native file runs and replays',
                        'constraints compared one-to-one by z3 equivalence (names of constraints are not carried by the format)'],
        'coverage': {'functions_encoded': ['featureide_writer._to_featureidexml/_create_tree/_get_attributes/_tag_element/_get_constraints/_create_elem_constraint/_get_constraints_info/_get_ctc_info/safename',
                                           'FeatureIDEReader._read_features/_read_constraints/_parse_rule'],
                     'bounds': {'shapes': 'N<=%d within the fragment' % (4 if tier == 'quick' else 5), 'name_len': 3 if tier == 'quick' else 4},
                     'stubs': ['ElementTree.tostring/minidom.parseString/ElementTree.parse']},
    }


def replay_dups(k):
    """near-duplicate constraints (repeated literally / differing by letter case of a name) through the real files."""
    m = rt.dup_models()[k]
    try:
        return ['%s | constraints %r' % (b[:400], rt.DUP_CTC_SETS[k]) for b in file_roundtrip(m)]
    except Exception as exc:
        return ['round trip raises %s: %s (constraints %r)' % (type(exc).__name__, exc, rt.DUP_CTC_SETS[k])]


def batch_impl_pairs(lo, hi):
    return rt.impl_pairs_batch(__name__, lo, hi, 'constraint-roundtrip')


def batch_dups():
    return rt.dup_batch(__name__, 'featureide-duplicate-constraints')
