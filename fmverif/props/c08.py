"""C08 - Glencoe round trip returns the same model, at any number of cycles."""
from __future__ import annotations

import json
import os
import random

from flamapy.metamodels.fm_metamodel.transformations import GlencoeWriter, GlencoeReader
from flamapy.metamodels.fm_metamodel.transformations.glencoe_writer import _to_json

from .. import refsem as R
from ..known import known
from ..runner import Cond
from .common import cards_params, indexed_shapes, totuple
from . import rt
from .c05 import CTCS, _rename

ID = 'C08'
LEVEL = 'model_checking'


def in_fragment_shape(shape) -> bool:
    """every parent has at most one group relation (k >= 2)."""
    rels = R.relations_of(shape)
    for rs in R.rels_by_parent(shape):
        if sum(1 for ri in rs if len(rels[ri][1]) > 1) > 1:
            return False
    return True


def fragment_pre(shape) -> list:
    """pre-conditions on the symbolic cards: singles next to a group are mandatory; singles are
    mandatory or optional; groups 0<=a<=b<=k, b>=1."""
    rels = R.relations_of(shape)
    pre = []
    rbp = R.rels_by_parent(shape)
    for rs in rbp:
        has_group = any(len(rels[ri][1]) > 1 for ri in rs)
        for ri in rs:
            k = len(rels[ri][1])
            if k == 1:
                pre.append(('a%d == 1 and b%d == 1' % (ri, ri)) if has_group else ('0 <= a%d <= 1 and b%d == 1' % (ri, ri)))
            else:
                pre.append('0 <= a%d <= b%d <= %d and b%d >= 1' % (ri, ri, k, ri))
    return pre


def fragment_cards(shape):
    import itertools
    rels = R.relations_of(shape)
    rbp = R.rels_by_parent(shape)
    opts = [None] * len(rels)
    for rs in rbp:
        has_group = any(len(rels[ri][1]) > 1 for ri in rs)
        for ri in rs:
            k = len(rels[ri][1])
            if k == 1:
                opts[ri] = [(1, 1)] if has_group else [(0, 1), (1, 1)]
            else:
                opts[ri] = [(a, b) for a in range(k + 1) for b in range(max(a, 1), k + 1)]
    return [list(c) for c in itertools.product(*opts)]


def canon(m):
    """Order-insensitive description of the tree (Glencoe sorts children by name)."""
    def feat(f):
        rels = []
        for r in f.relations:
            kids = sorted((feat(c) for c in r.children), key=lambda t: t[0])
            rels.append((tuple(k[0] for k in kids), r.card_min, r.card_max, r.parent.name if r.parent is not None else None, tuple(kids)))
        return (f.name, f.parent.name if f.parent is not None else None, tuple(sorted(rels, key=lambda t: t[0])))
    return feat(m.root)


def make(shape, cards, names=None, ctc_code=0, ctc_names=None):
    n = R.n_features(shape)
    names = names or ['F%d' % i for i in range(n)]
    trees = [_rename(t, {'F0': names[0], 'F1': names[1]}) for t in CTCS[ctc_code]] if n >= 2 else []
    ctcs = [R.ctc((ctc_names[i] if ctc_names else 'ctc %d' % i), t) for i, t in enumerate(trees)]
    return R.build(shape, cards, names=names, ctcs=ctcs)


def same(m1, m2) -> bool:
    return canon(m1) == canon(m2) and rt.ctcs_equivalent(m1, m2, same_names=True)


def cycle_ok(m, cycles=3) -> bool:
    d = _to_json(m)
    rd = GlencoeReader('unused')
    m2 = rt.json_transform(GlencoeReader, d)
    if not same(m, m2):
        return False
    prev_d, prev_m = d, m2
    for _ in range(cycles - 1):
        d2 = _to_json(prev_m)
        if d2 != prev_d:
            return False
        m3 = rt.json_transform(GlencoeReader, d2)
        if not same(prev_m, m3):
            return False
        prev_d, prev_m = d2, m3
    return True


def rt_cards(shape, cards, ctc_code) -> bool:
    return cycle_ok(make(shape, cards, ctc_code=ctc_code))


def file_roundtrip(m) -> list:
    out = []
    with rt.TempDir() as d:
        p1 = os.path.join(d, 'a.gfm.json')
        text = GlencoeWriter(p1, m).transform()
        with open(p1, 'rb') as f:
            raw = f.read()
        if raw.decode('utf-8') != text:
            out.append('returned text differs from the file content')
        m2 = GlencoeReader(p1).transform()
        if not same(m, m2):
            out.append('model read back differs: %r vs %r' % (canon(m2), canon(m)))
        p2 = os.path.join(d, 'b.gfm.json')
        text2 = GlencoeWriter(p2, m2).transform()
        if text2 != text:
            out.append('second cycle text differs')
        m3 = GlencoeReader(p2).transform()
        if not same(m2, m3):
            out.append('second cycle model differs')
        if GlencoeWriter(None, m3).transform() != text:
            out.append('third cycle text differs')
    return out


def replay_file(shape, cards, names, ctc_code):
    shape = totuple(shape)
    cards = [tuple(c) for c in cards]
    try:
        bad = file_roundtrip(make(shape, cards, names=names, ctc_code=ctc_code))
    except Exception as exc:
        return ['Glencoe round trip raises %s: %s (shape %s cards %r names %r)' % (type(exc).__name__, exc, R.shape_str(shape), cards, names)]
    return ['%s (shape %s cards %r names %r ctcs %d)' % (b, R.shape_str(shape), cards, names, ctc_code) for b in bad]


def batch_files(max_n, lo, hi, seed):
    rnd = random.Random(seed)
    res = {'instances': 0, 'nontrivial': 0, 'violations': [], 'native_runs': 0}

    def run(args):
        res['instances'] += 1
        res['native_runs'] += 1
        res['nontrivial'] += 1
        bad = replay_file(*args)
        if bad:
            res['violations'].append({'label': 'file-roundtrip', 'detail': bad[0], 'replay_func': 'replay_file', 'replay_args': args})
        res['sample'] = {'shape': R.shape_str(args[0]), 'cards': args[1], 'names': args[2]}
        return len(res['violations']) >= 4
    shapes = [s for s in R.shapes(max_n) if in_fragment_shape(s)]
    for shape in shapes[lo:hi]:
        allc = fragment_cards(shape)
        from .common import zero_group_cards
        for cards in (allc if len(allc) <= 16 else rnd.sample(allc, 16)) + [c for c in zero_group_cards(shape) if all(x == (1, 1) or len(cs) > 1 for x, (p, cs) in zip(c, R.relations_of(shape)))]:
            n = R.n_features(shape)
            names = None
            if rnd.random() < 0.5:
                names = rnd.sample(['b', 'a', 'Zed', 'c c', 'é', 'M_1', 'x-y', '10'], n) if n <= 8 else None
            if run([shape, cards, names, rnd.randrange(len(CTCS))]):
                return res
    if lo == 0:
        shape = (((), ()), ((),))
        for w in rt.WEIRD_NAMES:
            for pos in (0, 1, 3):
                names = ['F0', 'F1', 'F2', 'F3']
                names[pos] = w
                if run([shape, [(1, 2), (1, 1)], names, 3]):
                    return res
        for names in rt.confusable_cases(4):
            for cards, code in (([(1, 2), (1, 1)], 1), ([(2, 2), (1, 1)], 3)):
                if run([shape, cards, names, code]):
                    return res
    return res


FRAG_OPS = ['AND', 'OR', 'XOR', 'IMPLIES', 'EQUIVALENCE', 'REQUIRES', 'EXCLUDES']


def cycle_tree(tree):
    tree = totuple(tree)
    m = R.build((((), ()),), [(1, 2)], ctcs=[R.ctc('c0', tree)])
    try:
        d = _to_json(m)
        rd = GlencoeReader('unused')
        m2 = rt.json_transform(GlencoeReader, d)
        if not rt.ctcs_equivalent(m, m2, same_names=True):
            return ['constraint %r is read back as %r: not the same named, logically equivalent constraint' % (tree, [R.node_tree(c.ast.root) for c in m2.ctcs])]
        if _to_json(m2) != d:
            return ['constraint %r: second write differs' % (tree,)]
    except Exception as exc:
        return ['round trip of constraint %r raises %s: %s' % (tree, type(exc).__name__, exc)]
    return []


def batch_trees(lo, hi, full):
    return rt.ctc_tree_batch(__name__, 'cycle_tree', FRAG_OPS, lo, hi, full, 'constraint-roundtrip')


def conditions(tier, seed):
    conds = []
    N = 4 if tier == 'quick' else 5
    T = 60 if tier == 'quick' else 200
    imp0 = 'from fmverif.props import c08 as P\n'
    for si, shape in indexed_shapes(N, 2):
        if not in_fragment_shape(shape):
            continue
        imp = imp0 + 'SHAPE_%d = %r\n' % (si, shape)
        cp, _, cexpr = cards_params(shape)
        pre = fragment_pre(shape)
        code = (si + seed) % len(CTCS)
        fc = fragment_cards(shape)
        conds.append(Cond(name='c08_cards_%d' % si, imports=imp, params=cp, pre=pre, body='P.rt_cards(SHAPE_%d, %s, %d)' % (si, cexpr, code),
                          timeout=T, aspect='dict-level round trip x3, cardinalities symbolic within the Glencoe fragment',
                          sample={'shape': R.shape_str(shape), 'symbolic': 'all (min,max) in the fragment', 'constraints': CTCS[code]},
                          validate=[tuple(x for c in fc[0] for x in c), tuple(x for c in fc[-1] for x in c)]))
    return conds


def batches(tier, seed):
    N = 4 if tier == 'quick' else 5
    total = len([s for s in R.shapes(N) if in_fragment_shape(s)])
    step = total // 12 + 1
    b = [('batch_files', [N, lo, lo + step, seed + lo]) for lo in range(0, total, step)]
    full = tier != 'quick'
    nt = len(rt.ctc_family(FRAG_OPS, ['F0', 'F1', 'F2'], full))
    st = nt // 12 + 1
    b += [('batch_trees', [lo, lo + st, full]) for lo in range(0, nt, st)]
    b.append(('batch_dups', []))
    b += [('batch_impl_pairs', [lo, lo + 324]) for lo in range(0, 1296, 324)]
    return b


def _noop():
    pass


def info(tier):
    return {
        'assumptions': ['Glencoe fragment: every parent has only mandatory/optional single children, or one group (any 0<=a<=b<=k, b>=1) plus mandatory single children',
                        'names are concrete in the symbolic conditions because the writer and reader key dictionaries on them (hashing a symbolic string enumerates); the name quantifier is covered by the native file sweep only and is not solver-decided',
                        'the tree is compared without order (the format sorts children by name); constraints one-to-one by name and z3 equivalence',
                        'json.dump/json.load is a stub in the symbolic conditions and is exercised for real in the native file runs'],
        'coverage': {'functions_encoded': ['glencoe_writer._to_json/_get_features_info/_get_tree_info/_get_constraints_info/_get_ctc_info', 'GlencoeReader._parse_tree/_parse_constraints/_parse_ast_constraint'],
                     'bounds': {'shapes': 'N<=%d within the fragment' % (4 if tier == 'quick' else 5)},
                     'stubs': ['json.dump / json.load']},
    }


def replay_dups(k):
    """near-duplicate constraints (repeated literally / differing by letter case of a name) through the real files."""
    m = rt.dup_models()[k]
    try:
        return ['%s | constraints %r' % (b[:400], rt.DUP_CTC_SETS[k]) for b in file_roundtrip(m)]
    except Exception as exc:
        return ['round trip raises %s: %s (constraints %r)' % (type(exc).__name__, exc, rt.DUP_CTC_SETS[k])]


def batch_impl_pairs(lo, hi):
    return rt.impl_pairs_batch(__name__, lo, hi, 'constraint-roundtrip')


def batch_dups():
    return rt.dup_batch(__name__, 'glencoe-duplicate-constraints')
