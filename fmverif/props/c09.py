"""C09 - third-party documents are read as their format defines."""
from __future__ import annotations

import glob
import itertools
import json
import os
import random
import re
from xml.etree import ElementTree as ET

from flamapy.core.exceptions import FlamaException
from flamapy.metamodels.fm_metamodel.models import FeatureModel
from flamapy.metamodels.fm_metamodel.transformations import FeatureIDEReader, XMLReader, GlencoeReader, AFMReader

from .. import refsem as R
from ..known import known
from ..runner import Cond
from .common import cards_params, indexed_shapes, totuple
from . import rt, uvlio, afmio, c07, c08
from .c14 import _index

ID = 'C09'
LEVEL = 'model_checking'

# ---------------------------------------------------------------------------------------------
# FeatureIDE: reference emitter (Element level) with the format's syntactic freedom

FIDE_CTCS = [
    [],
    [('IMPLIES', 'F0', 'F1')],
    [('OR', 'F0', 'F1', 'F0'), ('AND', 'F1', 'F0', 'F1', 'F0')],           # n-ary disj / conj
    [('NOT', ('OR', 'F1')), ('EQUIVALENCE', 'F0', ('AND', 'F0', 'F1', 'F1'))],
    [('IMPLIES', ('OR', 'F0', 'F1', 'F1', 'F0'), ('NOT', 'F1'))],
    [('IMPLIES', 'F0', 'F1'), ('IMPLIES', 'F0', 'F1'), ('OR', ('NOT', 'F0'), 'F1'), ('IMPLIES', 'F0', 'F1')],      # repeated rules
    [('IMPLIES', 'F1', 'F0'), 'F1', 'F0', ('NOT', 'F1')],      # rules that are a single (positive / negated) literal
    ['F0'],
]
FIDE_TAG = {'AND': 'conj', 'OR': 'disj', 'NOT': 'not', 'IMPLIES': 'imp', 'EQUIVALENCE': 'eq'}


def nary_to_binary(t):
    """reference meaning of an n-ary rule: fold to binary (left associative); arity 1 = the operand."""
    if not isinstance(t, tuple):
        return t
    op = t[0]
    args = [nary_to_binary(x) for x in t[1:]]
    if op == 'NOT':
        return ('NOT', args[0])
    if op in ('AND', 'OR'):
        acc = args[0]
        for a in args[1:]:
            acc = (op, acc, a)
        return acc
    return (op,) + tuple(args)


def fide_ctcs(n):
    return FIDE_CTCS + nary_sets(n)[1:]


def fide_emit(shape, cards, names, abstract, opts, trees):
    """opts: dict of surface choices. Returns an ElementTree of a FeatureIDE document."""
    rels = R.relations_of(shape)
    rbp = R.rels_by_parent(shape)
    root = ET.Element('featureModel')
    if opts.get('properties'):
        ET.SubElement(root, 'properties')
    struct = ET.SubElement(root, 'struct')

    def attrs_for(i, ri):
        a = {}
        mand = None
        if ri is not None and len(rels[ri][1]) == 1:
            mand = (cards[ri][0] == 1)
        elif ri is not None and opts.get('group_member_mandatory') and i == rels[ri][1][0]:
            mand = True     # FeatureIDE itself writes mandatory="true" on members of alt / or groups; it has no meaning there
        items = []
        if mand is True:
            items.append(('mandatory', 'true'))
        elif mand is False:
            mv = opts.get('mandatory_false', 0)          # 0: attribute absent, 1: mandatory="false"
            if mv == 1:
                items.append(('mandatory', 'false'))
        if abstract[i]:
            items.append(('abstract', 'true'))
        elif opts.get('abstract_false'):
            items.append(('abstract', 'false'))
        items.append(('name', names[i]))
        if opts.get('attr_order'):
            items.reverse()
        for k, v in items:
            a[k] = v
        return a

    def tag_for(i):
        rs = rbp[i]
        if not rs:
            return 'feature'
        if len(rs) == 1 and len(rels[rs[0]][1]) > 1:
            mn, mx = cards[rs[0]]
            return 'alt' if (mn == 1 and mx == 1) else 'or'
        return 'and'

    def emit(i, parent_el, ri):
        el = ET.SubElement(parent_el, tag_for(i), attrs_for(i, ri))
        if opts.get('graphics'):
            g = ET.SubElement(el, 'graphics', {'key': 'collapsed', 'value': 'false'})
        if opts.get('description'):
            d = ET.SubElement(el, 'description')
            d.text = 'some text'
        for rj in rbp[i]:
            for c in rels[rj][1]:
                emit(c, el, rj)
    emit(0, struct, None)
    if trees or not opts.get('no_constraints_section'):
        cs = ET.SubElement(root, 'constraints')
        for t in trees:
            rule = ET.SubElement(cs, 'rule')
            if opts.get('rule_description'):
                d = ET.SubElement(rule, 'description')
                d.text = 'why'
            _fide_rule(t, rule)
    if opts.get('trailing'):
        ET.SubElement(root, 'comments')
        ET.SubElement(root, 'featureOrder', {'userDefined': 'false'})
    return ET.ElementTree(root)


def _fide_rule(t, parent):
    if not isinstance(t, tuple):
        v = ET.SubElement(parent, 'var')
        v.text = t
        return
    el = ET.SubElement(parent, FIDE_TAG[t[0]])
    for x in t[1:]:
        _fide_rule(x, el)


def fide_read(tree) -> FeatureModel:
    """FeatureIDEReader._read_feature_model without the file parser."""
    return rt.xml_transform(FeatureIDEReader, tree)


def fide_ok(shape, cards, names, abstract, opts, ctc_code) -> bool:
    n = R.n_features(shape)
    trees = [c05_rename(t, names) for t in fide_ctcs(n)[ctc_code % len(fide_ctcs(n))]] if n >= 2 else []
    doc = fide_emit(shape, cards, names, abstract, opts, trees)
    got = fide_read(doc)
    want = R.build(shape, cards, names=names, abstract=abstract, ctcs=[R.ctc(str(i + 1), nary_to_binary(t)) for i, t in enumerate(trees)])
    return c07.same(want, got)


def c05_rename(t, names):
    if isinstance(t, tuple):
        return (t[0],) + tuple(c05_rename(x, names) for x in t[1:])
    return {'F%d' % i: nm for i, nm in enumerate(names)}.get(t, t)


def nary_sets(n):
    """constraint lists with n-ary and / or rules over *distinct* operands, arity 1..min(n, 6),
    top-level and nested (a lost operand then changes the meaning)."""
    nm = ['F%d' % i for i in range(n)]
    out = [[]]
    for k in range(1, min(n, 6) + 1):
        ops = tuple(nm[:k])
        out.append([('OR',) + ops, ('AND',) + tuple(reversed(ops))])
        if k >= 2:
            out.append([('IMPLIES', ('OR',) + ops, ('NOT', ('AND',) + ops[1:])) if k >= 3 else ('IMPLIES', ('OR',) + ops, nm[0]),
                        ('EQUIVALENCE', nm[0], ('AND',) + ops), ('NOT', ('OR',) + ops)])
    return out


def fide_file(shape, cards, names, abstract, opts, ctc_code) -> list:
    """native: the same document through ElementTree.write + FeatureIDEReader(path).transform()."""
    shape = totuple(shape)
    cards = [tuple(c) for c in cards]
    n = R.n_features(shape)
    names = names or ['F%d' % i for i in range(n)]
    trees = [c05_rename(t, names) for t in fide_ctcs(n)[ctc_code % len(fide_ctcs(n))]] if n >= 2 else []
    want = R.build(shape, cards, names=names, abstract=abstract, ctcs=[R.ctc(str(i + 1), nary_to_binary(t)) for i, t in enumerate(trees)])
    try:
        with rt.TempDir() as d:
            p = os.path.join(d, 'm.xml')
            fide_emit(shape, cards, names, abstract, opts, trees).write(p, encoding='UTF-8', xml_declaration=True)
            got = FeatureIDEReader(p).transform()
    except Exception as exc:
        return ['FeatureIDE reader raises %s: %s | shape %s cards %r opts %r ctcs %d' % (type(exc).__name__, exc, R.shape_str(shape), cards, opts, ctc_code)]
    if not c07.same(want, got):
        return ['FeatureIDE document read as %r %r, it denotes %r %r | shape %s cards %r opts %r' % (
            R.snapshot(got, with_attrs=False, with_types=False)[0], [R.node_tree(c.ast.root) for c in got.ctcs],
            R.snapshot(want, with_attrs=False, with_types=False)[0], [R.node_tree(c.ast.root) for c in want.ctcs], R.shape_str(shape), cards, opts)]
    return []


FIDE_OPTS = ['mandatory_false', 'abstract_false', 'attr_order', 'graphics', 'description', 'no_constraints_section', 'rule_description', 'trailing', 'properties', 'group_member_mandatory']


# ---------------------------------------------------------------------------------------------
# FaMa XML

def fama_emit(shape, cards, names, opts, ctcs):
    """ctcs: [('requires'|'excludes', i, j)]"""
    rels = R.relations_of(shape)
    rbp = R.rels_by_parent(shape)
    root = ET.Element('feature-model')
    case = (lambda s: s.upper() if opts.get('upper') else s)

    def emit(i, parent_el, tag):
        el = ET.SubElement(parent_el, case(tag), {'name': names[i]})
        for rj in rbp[i]:
            cs = rels[rj][1]
            group = len(cs) > 1 or opts.get('single_as_set')
            r = ET.SubElement(el, case('setRelation' if group else 'binaryRelation'), {'name': 'R-%d' % rj})
            card = {'min': str(cards[rj][0]), 'max': str(cards[rj][1])} if not opts.get('attr_order') else {'max': str(cards[rj][1]), 'min': str(cards[rj][0])}
            if not opts.get('card_last'):
                ET.SubElement(r, case('cardinality'), card)
            for c in cs:
                emit(c, r, 'groupedFeature' if group else 'solitaryFeature')
            if opts.get('card_last'):
                ET.SubElement(r, case('cardinality'), card)
    emit(0, root, 'feature')
    for k, (kind, i, j) in enumerate(ctcs):
        ET.SubElement(root, case(kind), {'name': 'C-%d' % k, 'feature': names[i], kind: names[j]})
    return ET.ElementTree(root)


def fama_read(tree) -> FeatureModel:
    """XMLReader.transform without the file parser."""
    return rt.xml_transform(XMLReader, tree)


def fama_want(shape, cards, names, ctcs):
    trees = [(('REQUIRES' if k == 'requires' else 'EXCLUDES'), names[i], names[j]) for k, i, j in ctcs]
    return R.build(shape, cards, names=names, ctcs=[R.ctc('C-%d' % k, t) for k, t in enumerate(trees)])


def fama_ok(shape, cards, opts) -> bool:
    n = R.n_features(shape)
    names = ['F%d' % i for i in range(n)]
    ctcs = [('requires', n - 1, 0), ('excludes', 0, n - 1), ('requires', n - 1, 0), ('excludes', 0, n - 1)] if n >= 2 else []     # each element is a constraint, also a repeated one
    got = fama_read(fama_emit(shape, cards, names, opts, ctcs))
    want = fama_want(shape, cards, names, ctcs)
    return wellformed_same(want, got)


def wellformed_same(want, got) -> bool:
    if rt.tree_snapshot(want, attrs=False, types=False) != rt.tree_snapshot(got, attrs=False, types=False):
        return False
    return rt.ctcs_equivalent(want, got, same_names=True) and [R.node_tree(c.ast.root) for c in want.ctcs] == [R.node_tree(c.ast.root) for c in got.ctcs]


def fama_file(shape, cards, names, opts, ctcs) -> list:
    shape = totuple(shape)
    cards = [tuple(c) for c in cards]
    n = R.n_features(shape)
    names = names or ['F%d' % i for i in range(n)]
    ctcs = [tuple(c) for c in ctcs]
    try:
        with rt.TempDir() as d:
            p = os.path.join(d, 'm.xml')
            fama_emit(shape, cards, names, opts, ctcs).write(p, encoding='UTF-8', xml_declaration=True)
            got = XMLReader(p).transform()
    except Exception as exc:
        return ['FaMa reader raises %s: %s | shape %s cards %r opts %r' % (type(exc).__name__, exc, R.shape_str(shape), cards, opts)]
    want = fama_want(shape, cards, names, ctcs)
    if not wellformed_same(want, got):
        return ['FaMa document read as %r, it denotes %r | opts %r' % (R.snapshot(got, with_attrs=False, with_types=False), R.snapshot(want, with_attrs=False, with_types=False), opts)]
    return []


# ---------------------------------------------------------------------------------------------
# Glencoe (dict level): mandatory members of groups, GENOR bounds, optional flags

def glencoe_emit(shape, cards, names, opts, trees):
    rels = R.relations_of(shape)
    rbp = R.rels_by_parent(shape)
    n = R.n_features(shape)
    relof = {}
    for ri, (p, cs) in enumerate(rels):
        for c in cs:
            relof[c] = ri
    feats = {}
    order = list(range(n))
    ids = ['f_%d' % (i + 1) for i in range(n)] if opts.get('ids_differ') else list(names)
    if opts.get('reverse_keys'):
        order.reverse()
    for i in order:
        grp = [ri for ri in rbp[i] if len(rels[ri][1]) > 1]
        typ = 'FEATURE'
        info = {'name': names[i], 'note': '', 'type': 'FEATURE'}
        if grp:
            mn, mx = cards[grp[0]]
            k = len(rels[grp[0]][1])
            if mn == 1 and mx == 1:
                info['type'] = 'XOR'
            elif mn == 1 and mx == k and not opts.get('or_as_genor'):
                info['type'] = 'OR'
            else:
                info['type'] = 'GENOR'
                info['min'] = mn
                info['max'] = mx
        if i == 0:
            info['optional'] = False
        else:
            ri = relof[i]
            if len(rels[ri][1]) > 1:
                info['optional'] = True
            else:
                info['optional'] = (cards[ri][0] == 0)
        feats[ids[i]] = info

    def tree(i):
        node = {'id': ids[i]}
        kids = [c for ri in rbp[i] for c in rels[ri][1]]
        if opts.get('reverse_children'):
            kids = list(reversed(kids))
        if kids:
            node['children'] = [tree(c) for c in kids]
        return node
    ctcs = {}
    idof = dict(zip(names, ids))
    for k, t in enumerate(trees):
        ctcs['c%d' % k] = _glencoe_term(_rename_ids(t, idof))
    return {'id': 'FM', 'name': 'FM', 'features': feats, 'tree': tree(0), 'constraints': ctcs}


def _rename_ids(t, idof):
    if isinstance(t, tuple):
        return (t[0],) + tuple(_rename_ids(x, idof) for x in t[1:])
    return idof.get(t, t)


GL_TERM = {'NOT': 'NotTerm', 'AND': 'AndTerm', 'OR': 'OrTerm', 'XOR': 'XorTerm', 'IMPLIES': 'ImpliesTerm', 'EXCLUDES': 'ExcludesTerm', 'EQUIVALENCE': 'EquivalentTerm'}


def _glencoe_term(t):
    if not isinstance(t, tuple):
        return {'type': 'FeatureTerm', 'operands': [t]}
    return {'type': GL_TERM[t[0]], 'operands': [_glencoe_term(x) for x in t[1:]]}


GL_CTCS = [[], [('IMPLIES', 'F0', 'F1'), ('XOR', 'F0', 'F1')], [('OR', 'F0', 'F1', 'F2'), ('AND', 'F2', 'F0', 'F1'), ('XOR', 'F1', 'F2', 'F0')], [('EXCLUDES', 'F1', ('NOT', 'F0')), ('EQUIVALENCE', 'F0', 'F1')], [('IMPLIES', 'F0', 'F1'), ('IMPLIES', 'F0', 'F1'), ('EXCLUDES', 'F1', 'F0'), ('EXCLUDES', 'F1', 'F0')]]


def gl_ctcs(n, code):
    if n < 2:
        return []
    trees = GL_CTCS[code % len(GL_CTCS)]
    if n < 3:
        trees = [t for t in trees if 'F2' not in R.tree_names(t)]
    return trees


def glencoe_ok(shape, cards, opts, ctc_code) -> bool:
    n = R.n_features(shape)
    names = ['F%d' % i for i in range(n)]
    trees = gl_ctcs(n, ctc_code)
    d = glencoe_emit(shape, cards, names, opts, trees)
    rd = GlencoeReader('unused')
    got = rt.json_transform(GlencoeReader, d)
    want = R.build(shape, cards, names=names, ctcs=[R.ctc('c%d' % i, nary_fold(t)) for i, t in enumerate(trees)])
    return c08.canon(want) == c08.canon(got) and rt.ctcs_equivalent(want, got, same_names=True)


def nary_fold(t):
    if not isinstance(t, tuple):
        return t
    args = [nary_fold(x) for x in t[1:]]
    if t[0] in ('AND', 'OR', 'XOR') and len(args) > 2:
        acc = args[0]
        for a in args[1:]:
            acc = (t[0], acc, a)
        return acc
    return (t[0],) + tuple(args)


def name_variant(n, v):
    """feature names of a document: consecutive documents of one process carry different names at the same positions
    (and the same names at other positions), so that nothing remembered from an earlier document fits a later one."""
    if v == 1:
        return ['F%d' % (n - 1 - i) for i in range(n)]
    if v == 2:
        return ['K%d' % i for i in range(n)]
    return ['F%d' % i for i in range(n)]


def glencoe_file(shape, cards, opts, ctc_code) -> list:
    shape = totuple(shape)
    cards = [tuple(c) for c in cards]
    n = R.n_features(shape)
    names = name_variant(n, opts.get('names', 0))
    trees = [c05_rename(t, names) for t in gl_ctcs(n, ctc_code)]
    want = R.build(shape, cards, names=names, ctcs=[R.ctc('c%d' % i, nary_fold(t)) for i, t in enumerate(trees)])
    try:
        with rt.TempDir() as d:
            p = os.path.join(d, 'm.gfm.json')
            with open(p, 'w', encoding='utf-8') as f:
                json.dump(glencoe_emit(shape, cards, names, opts, trees), f)
            got = GlencoeReader(p).transform()
    except Exception as exc:
        return ['Glencoe reader raises %s: %s | shape %s cards %r opts %r' % (type(exc).__name__, exc, R.shape_str(shape), cards, opts)]
    if not (c08.canon(want) == c08.canon(got) and rt.ctcs_equivalent(want, got, same_names=True)):
        return ['Glencoe document read as %r %r, it denotes %r %r | opts %r' % (c08.canon(got), [R.node_tree(c.ast.root) for c in got.ctcs], c08.canon(want), [R.node_tree(c.ast.root) for c in want.ctcs], opts)]
    return []


# ---------------------------------------------------------------------------------------------
# AFM: text variants (native only: nothing symbolic can reach ANTLR; the token-level kernel is C06)

def afm_emit(shape, cards, names, opts, trees):
    rels = R.relations_of(shape)
    rbp = R.rels_by_parent(shape)
    sp = '  ' if opts.get('wide') else ' '
    lines = ['%Relationships']
    def spec(ri):
        p, cs = rels[ri]
        if len(cs) == 1 and not opts.get('single_as_group'):
            return names[cs[0]] if cards[ri] == (1, 1) else '[' + names[cs[0]] + ']'
        return '[%d,%d]{%s}' % (cards[ri][0], cards[ri][1], sp.join(names[c] for c in cs))
    order = list(range(R.n_features(shape)))
    for i in order:
        if rbp[i]:
            lines.append(names[i] + sp + ':' + sp + sp.join(spec(ri) for ri in rbp[i]) + ';')
    lines += ['', '%Attributes', '', '%Constraints']
    blk = opts.get('block')          # (position, feature name, tree): a feature-scoped block  Name {expr;}  among the plain constraints
    for k, t in enumerate(trees):
        if blk and blk[0] == k:
            lines.append(blk[1] + ' {' + _afm_expr(blk[2], opts) + ';}')
        lines.append(_afm_expr(t, opts) + ';')
    if blk and blk[0] >= len(trees):
        lines.append(blk[1] + ' {' + _afm_expr(blk[2], opts) + ';}')
    return '\n'.join(lines) + '\n'


def _afm_expr(t, opts, top=True):
    if not isinstance(t, tuple):
        return t
    op = {'EQUIVALENCE': 'IFF'}.get(t[0], t[0])
    if op == 'NOT':
        s = 'NOT ' + _afm_expr(t[1], opts, False)
    else:
        s = _afm_expr(t[1], opts, False) + ' ' + op + ' ' + _afm_expr(t[2], opts, False)
    return s if (top and not opts.get('paren_top')) else '(' + s + ')'


AFM_CTCS = [[], [('REQUIRES', 'B', 'C')], [('EXCLUDES', 'B', 'C'), ('IMPLIES', 'B', ('NOT', 'C'))], [('EQUIVALENCE', ('AND', 'B', 'C'), ('OR', 'B', ('NOT', 'C')))], [('NOT', ('NOT', 'B')), ('OR', ('AND', 'B', 'C'), 'B')], [('REQUIRES', 'B', 'C'), ('REQUIRES', 'B', 'C'), ('EXCLUDES', 'C', 'B'), ('REQUIRES', 'B', 'C')]]


def afm_file(shape, cards, opts, ctc_code) -> list:
    shape = totuple(shape)
    cards = [tuple(c) for c in cards]
    n = R.n_features(shape)
    names = (['A', 'B', 'C', 'D', 'E', 'F', 'G'] + ['H%d' % i for i in range(7, n)])[:n]
    trees = AFM_CTCS[ctc_code] if n >= 3 else []
    blockpos = None
    if opts.get('block') and n >= 3:
        # how the names inside a feature-scoped block are qualified is not fixed here: the constraint read from the block is
        # set aside (one constraint must be there), the plain constraints around it must be read exactly as written
        opts = dict(opts, block=(opts['block'] % (len(trees) + 1), names[1], ('IMPLIES', 'B', 'C')))
        blockpos = opts['block'][0]
    elif opts.get('block'):
        opts = dict(opts, block=None)
    want = R.build(shape, cards, names=names, ctcs=[R.ctc('c%d' % i, t) for i, t in enumerate(trees)])
    text = afm_emit(shape, cards, names, opts, trees)
    try:
        with rt.TempDir() as d:
            p = os.path.join(d, 'm.afm')
            with open(p, 'w', encoding='utf-8') as f:
                f.write(text)
            got = AFMReader(p).transform()
    except Exception as exc:
        return ['AFM reader raises %s: %s | text %r' % (type(exc).__name__, exc, text)]
    if blockpos is not None:
        if len(got.ctcs) != len(trees) + 1:
            return ['AFM document with a feature block: %d constraints read, %d written | text %r' % (len(got.ctcs), len(trees) + 1, text)]
        del got.ctcs[blockpos]
    if not afmio.same(want, got):
        return ['AFM document read as %r %r, it denotes %r %r | text %r' % (afmio.canon(got), [R.node_tree(c.ast.root) for c in got.ctcs], afmio.canon(want), [R.node_tree(c.ast.root) for c in want.ctcs], text)]
    return []


# ---------------------------------------------------------------------------------------------
# batches

def _fide_fragment_cards(shape):
    return c07.fragment_cards(shape)


def batch_fide(max_n, lo, hi, seed):
    rnd = random.Random(seed)
    res = {'instances': 0, 'nontrivial': 0, 'violations': [], 'native_runs': 0}
    seen = set()
    shapes = [s for s in R.shapes(max_n) if c07.in_fragment_shape(s)]
    for shape in shapes[lo:hi]:
        n = R.n_features(shape)
        for cards in _fide_fragment_cards(shape):
            combos = [dict()] + [{o: 1} for o in FIDE_OPTS] + [{o: 1 for o in FIDE_OPTS if rnd.random() < 0.5} for _ in range(2)]
            for opts in combos:
                code = rnd.randrange(len(fide_ctcs(n))) if not opts.get('no_constraints_section') else 0
                args = [shape, cards, None, [rnd.random() < 0.3 for _ in range(n)], opts, code]
                res['instances'] += 1
                res['native_runs'] += 1
                res['nontrivial'] += 1
                bad = fide_file(*args)
                if bad:
                    key = bad[0][:60]
                    if key in seen:
                        continue
                    seen.add(key)
                    res['violations'].append({'label': 'featureide-document', 'detail': bad[0][:600], 'replay_func': 'fide_file', 'replay_args': args})
                res['sample'] = {'shape': R.shape_str(shape), 'cards': cards, 'opts': opts}
        if len(res['violations']) >= 6:
            break
    return res


def batch_fama(max_n, lo, hi, seed):
    rnd = random.Random(seed)
    res = {'instances': 0, 'nontrivial': 0, 'violations': [], 'native_runs': 0}
    for shape in R.shapes(max_n)[lo:hi]:
        n = R.n_features(shape)
        allc = list(R.all_cards(shape))
        for cards in (allc if len(allc) <= 10 else rnd.sample(allc, 10)):
            for opts in [dict(), {'card_last': 1}, {'upper': 1}, {'attr_order': 1}, {'single_as_set': 1}, {'card_last': 1, 'upper': 1, 'attr_order': 1}]:
                ctcs = [['requires', n - 1, 0], ['excludes', 0, n - 1]] if n >= 2 else []
                if n >= 2 and rnd.random() < 0.5:
                    ctcs = ctcs + [['requires', n - 1, 0], ['excludes', n - 1, 0], ['excludes', 0, n - 1]]
                args = [shape, cards, name_variant(n, res['instances'] % 3), opts, ctcs]
                res['instances'] += 1
                res['native_runs'] += 1
                res['nontrivial'] += 1
                bad = fama_file(*args)
                if bad:
                    res['violations'].append({'label': 'fama-document', 'detail': bad[0][:600], 'replay_func': 'fama_file', 'replay_args': args})
                    if len(res['violations']) >= 4:
                        return res
                res['sample'] = {'shape': R.shape_str(shape), 'cards': cards, 'opts': opts}
    return res


WIDE = [0, 1, 2, 3, 5, 9, 10, 11, 12, 20, 25, 99, 100, 101]


def batch_wide(which, seed):
    """groups of 10, 12, 25 and 101 members with every pair of bounds from WIDE (one-, two- and three-digit texts
    on either side): a reader that handles the bounds as texts, or sizes anything by a single digit, shows here."""
    rnd = random.Random(seed)
    res = {'instances': 0, 'nontrivial': 0, 'violations': [], 'native_runs': 0}
    for k in (10, 12, 25, 101):
        group = tuple(() for _ in range(k))
        for shape, ri in (((group,), 0), ((((group,),),), 1)):
            nrel = len(R.relations_of(shape))
            pairs = [(a, b) for a in WIDE for b in WIDE if a <= b <= k and b >= 1]
            for a, b in (pairs if k <= 12 else rnd.sample(pairs, min(len(pairs), 25))):
                cards = [(1, 1)] * nrel
                cards[ri] = (a, b)
                if which == 'fama':
                    args = [shape, cards, None, rnd.choice([dict(), {'card_last': 1}, {'attr_order': 1}]), []]
                    bad = fama_file(*args)
                    fn = 'fama_file'
                elif which == 'glencoe':
                    args = [shape, cards, {}, 0]
                    bad = glencoe_file(*args)
                    fn = 'glencoe_file'
                else:
                    args = [shape, cards, {}, 0]
                    bad = afm_file(*args)
                    fn = 'afm_file'
                res['instances'] += 1
                res['native_runs'] += 1
                res['nontrivial'] += 1
                if bad:
                    res['violations'].append({'label': '%s-wide-group' % which, 'detail': bad[0][:300] + ' ... | group of %d, bounds [%d..%d]' % (k, a, b), 'replay_func': fn, 'replay_args': args})
                    if len(res['violations']) >= 4:
                        return res
                res['sample'] = {'format': which, 'group_members': k, 'bounds': [a, b]}
    return res


def glencoe_fragment_cards(shape):
    """mandatory members may accompany a group; singles are mandatory/optional."""
    rels = R.relations_of(shape)
    opts = []
    for rs in R.rels_by_parent(shape):
        pass
    out = []
    rbp = R.rels_by_parent(shape)
    choice = [None] * len(rels)
    for rs in rbp:
        has_group = any(len(rels[ri][1]) > 1 for ri in rs)
        for ri in rs:
            k = len(rels[ri][1])
            choice[ri] = ([(1, 1)] if has_group else [(0, 1), (1, 1)]) if k == 1 else [(a, b) for a in range(k + 1) for b in range(max(a, 1), k + 1)]
    return [list(c) for c in itertools.product(*choice)]


def batch_glencoe(max_n, lo, hi, seed):
    rnd = random.Random(seed)
    res = {'instances': 0, 'nontrivial': 0, 'violations': [], 'native_runs': 0}
    shapes = [s for s in R.shapes(max_n) if c08.in_fragment_shape(s)]
    for shape in shapes[lo:hi]:
        for cards in glencoe_fragment_cards(shape):
            for opts in [dict(), {'reverse_keys': 1}, {'reverse_children': 1}, {'or_as_genor': 1}, {'ids_differ': 1}, {'ids_differ': 1, 'reverse_keys': 1}]:
                opts = dict(opts, names=res['instances'] % 3)
                args = [shape, cards, opts, rnd.randrange(len(GL_CTCS))]
                res['instances'] += 1
                res['native_runs'] += 1
                res['nontrivial'] += 1
                bad = glencoe_file(*args)
                if bad:
                    res['violations'].append({'label': 'glencoe-document', 'detail': bad[0][:600], 'replay_func': 'glencoe_file', 'replay_args': args})
                    if len(res['violations']) >= 4:
                        return res
                res['sample'] = {'shape': R.shape_str(shape), 'cards': cards, 'opts': opts}
    return res


def batch_afm(max_n, lo, hi, seed):
    rnd = random.Random(seed)
    res = {'instances': 0, 'nontrivial': 0, 'violations': [], 'native_runs': 0}
    from . import c06
    for shape in R.shapes(max_n)[lo:hi]:
        if R.n_features(shape) < 2:
            continue      # an AFM document needs at least one relationship line
        allc = c06.fragment_cards(shape)
        for cards in (allc if len(allc) <= 8 else rnd.sample(allc, 8)):
            for opts in [dict(), {'wide': 1}, {'paren_top': 1}, {'single_as_group': 1}, {'block': 1 + rnd.randrange(6)}, {'block': 1 + rnd.randrange(6), 'paren_top': 1}]:
                args = [shape, cards, opts, rnd.randrange(len(AFM_CTCS))]
                res['instances'] += 1
                res['native_runs'] += 1
                res['nontrivial'] += 1
                bad = afm_file(*args)
                if bad:
                    res['violations'].append({'label': 'afm-document', 'detail': bad[0][:600], 'replay_func': 'afm_file', 'replay_args': args})
                    if len(res['violations']) >= 4:
                        return res
                res['sample'] = {'shape': R.shape_str(shape), 'cards': cards, 'opts': opts}
    return res


STAT_RE = {
    'features': re.compile(r'Number of features:\s*(\d+)'), 'mandatory': re.compile(r'Mandatory features:\s*(\d+)'),
    'optional': re.compile(r'Optinal features:\s*(\d+)'), 'or': re.compile(r'Or-relationships:\s*(\d+)'),
    'alt': re.compile(r'Alternative relationships:\s*(\d+)'), 'sub_or': re.compile(r'Subfeatures in or-relationships:\s*(\d+)'),
    'sub_alt': re.compile(r'Subfeatures in alternative relationships:\s*(\d+)'), 'ctc': re.compile(r'Cross-tree constraints:\s*(\d+)'),
    'requires': re.compile(r'Requires constraints:\s*(\d+)'), 'excludes': re.compile(r'Excludes constraints:\s*(\d+)'),
}


def corpus_file(path) -> list:
    """One shipped FaMa XML file against its Betty .statistics (independent ground truth)."""
    stat = path[:-4] + '.statistics'
    try:
        m = XMLReader(path).transform()
    except Exception as exc:
        return ['XMLReader raises %s: %s on %s' % (type(exc).__name__, exc, path)]
    if not os.path.exists(stat):
        return []
    txt = open(stat, encoding='utf-8', errors='replace').read()
    want = {k: int(r.search(txt).group(1)) for k, r in STAT_RE.items() if r.search(txt)}
    rels = []
    feats = [m.root]
    stack = [m.root]
    while stack:
        f = stack.pop()
        for r in f.relations:
            rels.append(r)
            for c in r.children:
                feats.append(c)
                stack.append(c)
    got = {
        'features': len(feats),
        'mandatory': sum(1 for r in rels if len(r.children) == 1 and (r.card_min, r.card_max) == (1, 1)),
        'optional': sum(1 for r in rels if len(r.children) == 1 and (r.card_min, r.card_max) == (0, 1)),
        'or': sum(1 for r in rels if len(r.children) > 1 and r.card_min == 1 and r.card_max == len(r.children)),
        'alt': sum(1 for r in rels if len(r.children) > 1 and (r.card_min, r.card_max) == (1, 1)),
        'ctc': len(m.ctcs),
        'requires': sum(1 for c in m.ctcs if c.ast.root.data.name == 'REQUIRES'),
        'excludes': sum(1 for c in m.ctcs if c.ast.root.data.name == 'EXCLUDES'),
    }
    got['sub_or'] = sum(len(r.children) for r in rels if len(r.children) > 1 and r.card_min == 1 and r.card_max == len(r.children))
    got['sub_alt'] = sum(len(r.children) for r in rels if len(r.children) > 1 and (r.card_min, r.card_max) == (1, 1))
    bad = {k: (got[k], want[k]) for k in want if k in got and got[k] != want[k]}
    # parents consistent
    for r in rels:
        for c in r.children:
            if c.parent is not r.parent:
                bad['parent'] = (c.name, 'parent mismatch')
    return ['%s: read (got, statistics) %r' % (path, bad)] if bad else []


def batch_corpus(lo, hi):
    files = sorted(glob.glob(os.environ.get('FMV_REPO', '/repo') + '/resources/models/**/*.xml', recursive=True))[lo:hi]
    res = {'instances': 0, 'nontrivial': 0, 'violations': [], 'native_runs': 0}
    for p in files:
        res['instances'] += 1
        res['native_runs'] += 1
        res['nontrivial'] += 1 if os.path.exists(p[:-4] + '.statistics') else 0
        bad = corpus_file(p)
        if bad:
            res['violations'].append({'label': 'corpus', 'detail': bad[0][:500], 'replay_func': 'corpus_file', 'replay_args': [p]})
            if len(res['violations']) >= 4:
                break
    res['sample'] = {'files': files[:2]}
    res['note'] = 'corpus: concrete runs against Betty statistics (oracle validation), not solver coverage'
    return res


# ---------------------------------------------------------------------------------------------

def conditions(tier, seed):
    conds = []
    N = 4 if tier == 'quick' else 5
    T = 60 if tier == 'quick' else 200
    L = 3 if tier == 'quick' else 4
    imp0 = 'from fmverif.props import c09 as P\n'
    optnames = FIDE_OPTS
    for si, shape in indexed_shapes(N, 2):
        n = R.n_features(shape)
        imp = imp0 + 'SHAPE_%d = %r\n' % (si, shape)
        cp, cpre, cexpr = cards_params(shape)
        if c07.in_fragment_shape(shape):
            # FeatureIDE: cards + surface options symbolic (booleans), names placeholders
            op = ', '.join('o%d: bool' % i for i in range(len(optnames)))
            od = '{' + ', '.join('%r: o%d' % (o, i) for i, o in enumerate(optnames)) + '}'
            code = (si + seed) % len(fide_ctcs(n))
            fc = c07.fragment_cards(shape)
            conds.append(Cond(name='c09_fide_%d' % si, imports=imp, params=cp + ', ' + op, pre=c07.fragment_pre(shape) + ['not (o5 and %d > 0)' % code],
                              body='P.fide_ok(SHAPE_%d, %s, %r, %r, %s, %d)' % (si, cexpr, ['F%d' % i for i in range(n)], [i % 2 == 1 for i in range(n)], od, code),
                              timeout=T, aspect='FeatureIDE reference document (Element level): cardinalities and surface choices symbolic',
                              sample={'shape': R.shape_str(shape), 'symbolic': 'cards + %d surface Booleans' % len(optnames), 'constraints': str(fide_ctcs(n)[code])[:200]},
                              validate=[tuple(x for c in fc[0] for x in c) + tuple([False] * len(optnames)), tuple(x for c in fc[-1] for x in c) + tuple([True] * 5 + [False] + [True] * 4)]))
            pos = (si + seed) % n
            names = ['F%d' % i for i in range(n)]
            nexpr = '[' + ', '.join(('name' if i == pos else repr(names[i])) for i in range(n)) + ']'
            conds.append(Cond(name='c09_fidename_%d' % si, imports=imp, params='name: str',
                              pre=['1 <= len(name) <= %d' % L, 'all(len(name) != len(o) or name != o for o in %r)' % (names,)],
                              body='P.fide_ok(SHAPE_%d, %r, %s, %r, {"mandatory_false": 1, "graphics": 1}, %d)' % (si, fc[-1], nexpr, [False] * n, (code + 1) % len(fide_ctcs(n))),
                              timeout=T, aspect='FeatureIDE reference document: one symbolic name', sample={'shape': R.shape_str(shape), 'symbolic': 'name of feature %d' % pos},
                              validate=[('Zz',), ('a b',)]))
        # FaMa: all cards symbolic (rendered as attribute strings, parsed by int())
        fpre = ['0 <= a%d <= b%d <= %d and b%d >= 1' % (i, i, min(len(cs), 9), i) for i, (p, cs) in enumerate(R.relations_of(shape))]
        dc = tuple(x for c in R.default_cards(shape) for x in c)
        for oi, opts in enumerate([{}, {'card_last': 1, 'upper': 1}, {'single_as_set': 1, 'attr_order': 1}]):
            if tier == 'quick' and oi != (si % 3):
                continue
            conds.append(Cond(name='c09_fama_%d_%d' % (si, oi), imports=imp, params=cp, pre=fpre, body='P.fama_ok(SHAPE_%d, %s, %r)' % (si, cexpr, opts),
                              timeout=T, aspect='FaMa XML reference document (Element level): cardinalities symbolic, surface %r' % (opts,),
                              sample={'shape': R.shape_str(shape), 'symbolic': 'all (min,max)', 'opts': opts}, validate=[dc]))
        if c08.in_fragment_shape(shape):
            gc = glencoe_fragment_cards(shape)
            for oi, opts in enumerate([{}, {'reverse_keys': 1, 'reverse_children': 1, 'ids_differ': 1}, {'or_as_genor': 1}, {'ids_differ': 1}]):
                if tier == 'quick' and oi not in (si % 3, 3):
                    continue
                conds.append(Cond(name='c09_glencoe_%d_%d' % (si, oi), imports=imp, params=cp, pre=c08.fragment_pre(shape),
                                  body='P.glencoe_ok(SHAPE_%d, %s, %r, %d)' % (si, cexpr, opts, (si + oi) % len(GL_CTCS)), timeout=T,
                                  aspect='Glencoe reference document (dict level): cardinalities symbolic, surface %r' % (opts,),
                                  sample={'shape': R.shape_str(shape), 'symbolic': 'all (min,max) in the fragment', 'opts': opts},
                                  validate=[tuple(x for c in gc[0] for x in c), tuple(x for c in gc[-1] for x in c)]))
    return conds


def batches(tier, seed):
    N = 4 if tier == 'quick' else 5
    total = len(R.shapes(N))
    step = total // 4 + 1
    b = []
    for fn in ('batch_fide', 'batch_fama', 'batch_glencoe', 'batch_afm'):
        b += [(fn, [N, lo, lo + step, seed + lo]) for lo in range(0, total, step)]
    b += [('batch_wide', [w, seed]) for w in ('fama', 'glencoe', 'afm')]
    nfiles = len(glob.glob(os.environ.get('FMV_REPO', '/repo') + '/resources/models/**/*.xml', recursive=True))
    if tier == 'quick':
        b.append(('batch_corpus', [0, 60]))
    else:
        st = nfiles // 16 + 1
        b += [('batch_corpus', [lo, lo + st]) for lo in range(0, nfiles, st)]
    return b


def info(tier):
    return {
        'assumptions': ['reference emitters written from the formats (FeatureIDE XML, FaMa XML, Glencoe JSON, AFM text); their syntactic freedom is a set of surface options, symbolic Booleans in the FeatureIDE conditions',
                        'FeatureIDE/FaMa/Glencoe documents are built as Element trees / dicts and fed to the real reader functions (file parsers are stubs there, exercised for real in the native batches)',
                        'n-ary and/or rules denote the left fold of their operands; arity-1 rules denote their operand',
                        'AFM third-party variants are concrete text runs (nothing symbolic can reach ANTLR); the shipped corpus with Betty statistics is oracle validation; neither is counted as solver coverage',
                        'FaMa / Glencoe names are concrete (the readers hash them)'],
        'coverage': {'functions_encoded': ['FeatureIDEReader._read_features/_read_constraints/_parse_rule', 'XMLReader.parse_feature/parse_relation/parse_ctc', 'GlencoeReader._parse_tree/_parse_constraints/_parse_ast_constraint', 'AFMReader (native)'],
                     'bounds': {'shapes': 'N<=%d' % (4 if tier == 'quick' else 5), 'name_len': 3 if tier == 'quick' else 4, 'corpus_files': 60 if tier == 'quick' else 1299},
                     'stubs': ['ElementTree.parse / json.load (identity), real in native batches']},
    }
