"""C10 - SPLOT and propositional exports denote exactly the model's configurations."""
from __future__ import annotations

import random

from flamapy.metamodels.fm_metamodel.transformations import SPLOTWriter
from flamapy.metamodels.fm_metamodel.transformations.pl_writer import PLWriter

from .. import refsem as R
from ..known import known
from .common import indexed_shapes, totuple
from . import interp

ID = 'C10'
LEVEL = 'translation_validation'


def ctc_sets(names, depth):
    trees = [t for t in R.logical_trees(names, depth) if not isinstance(t, str)]
    return trees


def check_export(which, shape, cards, trees) -> list:
    """[(key, message)] for one exported program."""
    import z3
    n = R.n_features(shape)
    names = ['F%d' % i for i in range(n)]
    m = R.build(shape, cards, ctcs=[R.ctc('c%d' % i, t) for i, t in enumerate(trees)])
    snap = R.snapshot(m)
    ctx = z3.Context()
    T, var = R.tree2z3(shape, cards, z3, ctx)
    env = {names[i]: var[i] for i in range(n)}
    C = [R.tree2z3_expr(t, env, z3, ctx) for t in trees]
    src = z3.And([T] + C, ctx)
    ops = [o for t in trees for o in _ops(t)]
    dep = 'XOR' in ops or 'EQUIVALENCE' in ops
    try:
        if which == 'splot':
            text = SPLOTWriter(None, m).transform()
            E, ivar = interp.sxfm2z3(text, z3, ctx)
        else:
            text = PLWriter(None, m).transform()
            E, ivar = interp.exp2z3(text, names, z3, ctx)
    except interp.FormatError as exc:
        return [('unreadable', '%s export is not a document of the target format: %s' % (which, exc))]
    out = []
    missing = [nm for nm in names if nm not in ivar]
    if missing:
        out.append(('feature-missing', '%s export lacks features %r' % (which, missing)))
        return out
    link = z3.And([env[nm] == ivar[nm] for nm in names], ctx)
    r = R.decide(z3, ctx, link, z3.Xor(src, E, ctx))
    if r == 'sat':
        key = 'not-equivalent'
        if which == 'splot' and dep:
            key = 'not-equivalent:cnf-of-xor-or-equivalence'
        s = z3.Solver(ctx=ctx)
        s.add(link, z3.Xor(src, E, ctx))
        s.check()
        mdl = s.model()
        sel = [nm for nm in names if z3.is_true(mdl.eval(env[nm], model_completion=True))]
        valid = z3.is_true(mdl.eval(src, model_completion=True))
        out.append((key, '%s export and model disagree on selection %r (valid in the model: %s)' % (which, sel, valid)))
    elif r != 'unsat':
        raise RuntimeError('solver unknown')
    if R.snapshot(m) != snap:
        out.append(('mutated', '%s writer modified the model' % which))
    return out


def _ops(t):
    if not isinstance(t, tuple):
        return []
    o = [t[0]]
    for x in t[1:]:
        o += _ops(x)
    return o


def replay_export(which, shape, cards, trees):
    shape = totuple(shape)
    cards = [tuple(c) for c in cards]
    trees = [totuple(t) for t in trees]
    out = []
    try:
        found = check_export(which, shape, cards, trees)
    except Exception as exc:
        return ['%s export raises %s: %s (shape %s cards %r ctcs %r)' % (which, type(exc).__name__, exc, R.shape_str(shape), cards, trees)]
    for key, msg in found:
        if known('C10', which + ':' + key):
            continue
        out.append('%s [%s] shape %s cards %r ctcs %r' % (msg, key, R.shape_str(shape), cards, trees))
    return out


def witness_splot_cnf():
    return any(k == 'not-equivalent:cnf-of-xor-or-equivalence' for k, _ in check_export('splot', (((), ()),), [(0, 2)], [('EQUIVALENCE', 'F1', 'F2')]))


def batch_exports(which, max_n, lo, hi, seed, depth, per_model):
    rnd = random.Random(seed)
    res = {'instances': 0, 'nontrivial': 0, 'violations': [], 'native_runs': 0, 'programs': 0, 'disagreements_checked': 0}
    keys = set()
    for shape in R.shapes(max_n)[lo:hi]:
        n = R.n_features(shape)
        names = ['F%d' % i for i in range(n)]
        pool = ctc_sets(names[:3], depth) if n >= 2 else []
        for cards in R.all_cards(shape):
            cases = [[]]
            for _ in range(per_model if pool else 0):
                cases.append([rnd.choice(pool) for _ in range(rnd.randint(1, 2))])
            for trees in cases:
                res['instances'] += 1
                res['programs'] += 1
                res['nontrivial'] += 1
                res['native_runs'] += 1
                bad = replay_export(which, shape, cards, trees)
                if bad:
                    res['disagreements_checked'] += 1
                    k = bad[0].split('[')[1].split(']')[0] if '[' in bad[0] else bad[0][:20]
                    if k in keys and len(res['violations']) >= 3:
                        continue
                    keys.add(k)
                    res['violations'].append({'label': which + '-export', 'detail': bad[0], 'replay_func': 'replay_export', 'replay_args': [which, shape, cards, trees]})
                res['sample'] = {'writer': which, 'shape': R.shape_str(shape), 'cards': cards, 'constraints': trees}
        if len(res['violations']) >= 8:
            break
    return res


def batch_all_ops(which, seed):
    """every single logical operator at depth 1 and every depth-2 tree over two names, on one model."""
    res = {'instances': 0, 'nontrivial': 0, 'violations': [], 'native_runs': 0, 'programs': 0, 'disagreements_checked': 0}
    shape = (((), ()), ((),))
    cards = [(1, 2), (0, 1)]
    keys = set()
    for t in [t for t in R.logical_trees(['F1', 'F3'], 2) if not isinstance(t, str)]:
        res['instances'] += 1
        res['programs'] += 1
        res['nontrivial'] += 1
        bad = replay_export(which, shape, cards, [t])
        if bad:
            res['disagreements_checked'] += 1
            k = bad[0].split('[')[1].split(']')[0]
            if k in keys:
                continue
            keys.add(k)
            res['violations'].append({'label': which + '-export', 'detail': bad[0], 'replay_func': 'replay_export', 'replay_args': [which, shape, cards, [t]]})
    res['sample'] = {'writer': which, 'family': 'all depth<=2 trees over F1,F3'}
    return res


def batches(tier, seed):
    N = 4 if tier == 'quick' else 5
    total = len(R.shapes(N))
    step = total // 7 + 1
    b = []
    for which in ('splot', 'pl'):
        b += [('batch_exports', [which, N, lo, lo + step, seed + lo, 1, 1 if tier == 'quick' else 3]) for lo in range(0, total, step)]
        b.append(('batch_all_ops', [which, seed]))
    return b


WITNESSES = {}


def info(tier):
    return {
        'assumptions': ['each export is a program; its meaning is given by the independent interpreters in fmverif/props/interp.py (SXFM tree/group lines + CNF clauses; .exp formulas with not > and > or/XOR > -> > <->)',
                        'models: all shapes up to N, every 0<=min<=max<=k with max>=1, constraints over the eight logical operators; names are the placeholders F0..Fn',
                        'the 2^n selections are decided by one z3 query per program (source semantics xor interpreted export, unsat)',
                        'AST.get_clauses (flamapy.core) is executed as is'],
        'coverage': {'functions_encoded': ['SPLOTWriter.transform', 'splot_writer.fm_to_splot/add_features/add_constraints', 'PLWriter.transform', 'pl_writer.to_exp/get_relation_formula/get_*_formula/get_constraint_formula',
                                           'flamapy.core AST.get_clauses/convert_into_cnf (dependency)'],
                     'bounds': {'shapes': 'N<=%d' % (4 if tier == 'quick' else 5), 'constraints': '1-2 trees of depth<=1 per model + all depth<=2 trees over two names on one model'},
                     'stubs': []},
    }
