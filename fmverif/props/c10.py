"""C10 - SPLOT and propositional exports denote exactly the model's configurations."""
from __future__ import annotations

import random

from flamapy.metamodels.fm_metamodel.transformations import SPLOTWriter
from flamapy.metamodels.fm_metamodel.transformations import pl_writer
from flamapy.metamodels.fm_metamodel.transformations.pl_writer import PLWriter

from .. import refsem as R
from ..known import known
from .common import indexed_shapes, totuple
from . import interp

ID = 'C10'
LEVEL = 'translation_validation'


def ctc_sets(names, depth):
    trees = [t for t in R.logical_trees(names, depth) if not isinstance(t, str)]
    return trees


# Name lists (identifier-like, none is a connective of a target format): names that contain one another, that are pieces of the connective words, that differ by case
# or by an underscore. The formats have no quoting for such names, so the exports must keep them apart.
NAME_LISTS = [
    ['GPS', 'GPS2', 'PS', 'G', 'GPS22', 'S2'],
    ['a', 'n', 'd', 'an', 'nd', 'anda'],
    ['o', 'r', 'no', 't', 'ot', 'nott'],
    ['x', 'xx', 'xxx', 'xxxx', 'xxxxx', 'xxxxxx'],
    ['A', 'a', 'Aa', 'aA', 'AA', 'aa'],
    ['F1', 'F10', 'F100', 'F', 'F01', 'F0'],
    ['F_0', '_F0', 'F0_', 'F__0', '_', '__'],
    ['AND1', 'ORx', 'NOTa', 'XORb', 'IMPLIESc', 'xAND'],
    ['and_', '_or', 'not_x', 'x_not', 'or_and', 'XOR_'],
    # operator names of the constraint language (not connectives of the target formats: those are 'and', 'or', 'not', 'XOR', 'MUX')
    ['AND', 'OR', 'NOT', 'IMPLIES', 'REQUIRES', 'EXCLUDES'],
    ['EQUIVALENCE', 'Not', 'And', 'Or', 'Xor', 'IFF'],
]
SPLOT_ONLY_LISTS = [['a b', 'a  b', 'ab', 'a-b', 'a_b', 'a.b'], ['é', 'e', 'É', 'ée', 'e é', 'E']]


def pick_names(which, code, n):
    lists = NAME_LISTS + (SPLOT_ONLY_LISTS if which == 'splot' else [])
    lst = lists[(code // 2) % len(lists)]
    lst = lst[:n] if code % 2 == 0 else list(reversed(lst[:n]))
    return lst


def _ren(t, mp):
    if isinstance(t, tuple):
        return (t[0],) + tuple(_ren(x, mp) for x in t[1:])
    return mp.get(t, t)


def check_export(which, shape, cards, trees, names=None) -> list:
    """[(key, message)] for one exported program. trees are written over F0..Fn; names renames them."""
    import z3
    n = R.n_features(shape)
    if names is None:
        names = ['F%d' % i for i in range(n)]
    else:
        mp = {'F%d' % i: names[i] for i in range(n)}
        trees = [_ren(t, mp) for t in trees]
    m = R.build(shape, cards, names=names, ctcs=[R.ctc('c%d' % i, t) for i, t in enumerate(trees)])
    snap = R.snapshot(m)
    ctx = z3.Context()
    T, var = R.tree2z3(shape, cards, z3, ctx)
    if len(set(names)) != n:
        raise RuntimeError('names not distinct')
    env = {names[i]: var[i] for i in range(n)}
    C = [R.tree2z3_expr(t, env, z3, ctx) for t in trees]
    src = z3.And([T] + C, ctx)
    ops = [o for t in trees for o in _ops(t)]
    dep = 'XOR' in ops or 'EQUIVALENCE' in ops
    try:
        if which == 'splot':
            text = SPLOTWriter(None, m).transform()
            E, ivar = interp.sxfm2z3(text, z3, ctx)
        else:
            text = PLWriter(None, m).transform()
            E, ivar = interp.exp2z3(text, names, z3, ctx)
    except interp.FormatError as exc:
        return [('unreadable', '%s export is not a document of the target format: %s' % (which, exc))]
    out = []
    if which == 'splot':     # an identifier the writer had to quote stands for the name inside the quotes
        ivar = dict(ivar)
        for nm in names:
            if nm not in ivar and '"%s"' % nm in ivar:
                ivar[nm] = ivar['"%s"' % nm]
    missing = [nm for nm in names if nm not in ivar]
    if missing:
        out.append(('feature-missing', '%s export lacks features %r' % (which, missing)))
        return out
    link = z3.And([env[nm] == ivar[nm] for nm in names], ctx)
    r = R.decide(z3, ctx, link, z3.Xor(src, E, ctx))
    if r == 'sat':
        key = 'not-equivalent'
        if which == 'splot' and dep:
            key = 'not-equivalent:cnf-of-xor-or-equivalence'
        s = z3.Solver(ctx=ctx)
        s.add(link, z3.Xor(src, E, ctx))
        s.check()
        mdl = s.model()
        sel = [nm for nm in names if z3.is_true(mdl.eval(env[nm], model_completion=True))]
        valid = z3.is_true(mdl.eval(src, model_completion=True))
        out.append((key, '%s export and model disagree on selection %r (valid in the model: %s)' % (which, sel, valid)))
    elif r != 'unsat':
        raise RuntimeError('solver unknown')
    if R.snapshot(m) != snap:
        out.append(('mutated', '%s writer modified the model' % which))
    return out


def _ops(t):
    if not isinstance(t, tuple):
        return []
    o = [t[0]]
    for x in t[1:]:
        o += _ops(x)
    return o


def replay_export(which, shape, cards, trees, names=None):
    shape = totuple(shape)
    cards = [tuple(c) for c in cards]
    trees = [totuple(t) for t in trees]
    out = []
    try:
        found = check_export(which, shape, cards, trees, names)
    except Exception as exc:
        return ['%s export raises %s: %s (shape %s cards %r ctcs %r names %r)' % (which, type(exc).__name__, exc, R.shape_str(shape), cards, trees, names)]
    for key, msg in found:
        if known('C10', which + ':' + key):
            continue
        out.append('%s [%s] shape %s cards %r ctcs %r%s' % (msg, key, R.shape_str(shape), cards, trees, '' if names is None else ' names %r' % (names,)))
    return out


def witness_splot_cnf():
    return any(k == 'not-equivalent:cnf-of-xor-or-equivalence' for k, _ in check_export('splot', (((), ()),), [(0, 2)], [('EQUIVALENCE', 'F1', 'F2')]))


def batch_exports(which, max_n, lo, hi, seed, depth, per_model):
    rnd = random.Random(seed)
    res = {'instances': 0, 'nontrivial': 0, 'violations': [], 'native_runs': 0, 'programs': 0, 'disagreements_checked': 0}
    keys = set()
    for shape in R.shapes(max_n)[lo:hi]:
        n = R.n_features(shape)
        names = ['F%d' % i for i in range(n)]
        pool = ctc_sets(names[:3], depth) if n >= 2 else []
        for cards in R.all_cards(shape):
            cases = [([], None)]
            for _ in range(per_model if pool else 0):
                cases.append(([rnd.choice(pool) for _ in range(rnd.randint(1, 2))], None))
            if n >= 2:      # the same programs over names that contain one another / pieces of connectives / case variants
                cases.append(([], pick_names(which, rnd.randrange(1000), n)))
                if pool and rnd.random() < 0.5:
                    cases.append(([rnd.choice(pool)], pick_names(which, rnd.randrange(1000), n)))
            for trees, nm in cases:
                res['instances'] += 1
                res['programs'] += 1
                res['nontrivial'] += 1
                res['native_runs'] += 1
                bad = replay_export(which, shape, cards, trees, nm)
                if bad:
                    res['disagreements_checked'] += 1
                    k = bad[0].split('[')[1].split(']')[0] if '[' in bad[0] else bad[0][:20]
                    if k in keys and len(res['violations']) >= 3:
                        continue
                    keys.add(k)
                    res['violations'].append({'label': which + '-export', 'detail': bad[0], 'replay_func': 'replay_export', 'replay_args': [which, shape, cards, trees, nm]})
                res['sample'] = {'writer': which, 'shape': R.shape_str(shape), 'cards': cards, 'constraints': trees, 'names': nm}
        if len(res['violations']) >= 8:
            break
    return res


def batch_dups(which):
    """constraints that are repeated literally or differ by the letter case of a name only: each one is part of the
    model's meaning and must reach the export (Constraint.__eq__ folds case, a set / dict of constraints loses them)."""
    from . import rt
    res = {'instances': 0, 'nontrivial': 0, 'violations': [], 'native_runs': 0, 'programs': 0, 'disagreements_checked': 0}
    extra = [[('REQUIRES', 'Gui', 'Core'), ('EXCLUDES', 'GUI', 'Core')], [('IMPLIES', 'Core', 'Gui'), ('IMPLIES', 'core', 'GUI')]]
    for trees in rt.DUP_CTC_SETS + extra:
        names = list(rt.DUP_NAMES) if not any('core' in R.tree_names(t) for t in trees) else ['Root', 'Gui', 'GUI', 'Core', 'core']
        shape = rt.DUP_SHAPE if len(names) == 4 else (((),), ((),), ((),), ((),))
        for cards in ([(0, 1)] * (len(names) - 1), [(1, 1)] + [(0, 1)] * (len(names) - 2)):
            args = [which, shape, cards, trees, names]
            res['instances'] += 1
            res['programs'] += 1
            res['nontrivial'] += 1
            res['native_runs'] += 1
            bad = replay_export(*args)
            if bad:
                res['disagreements_checked'] += 1
                res['violations'].append({'label': which + '-export', 'detail': bad[0], 'replay_func': 'replay_export', 'replay_args': args})
    res['sample'] = {'writer': which, 'names': rt.DUP_NAMES, 'constraints': rt.DUP_CTC_SETS[0]}
    return res


def batch_all_ops(which, seed):
    """every single logical operator at depth 1 and every depth-2 tree over two names, on one model."""
    res = {'instances': 0, 'nontrivial': 0, 'violations': [], 'native_runs': 0, 'programs': 0, 'disagreements_checked': 0}
    shape = (((), ()), ((),))
    cards = [(1, 2), (0, 1)]
    keys = set()
    for t in [t for t in R.logical_trees(['F1', 'F3'], 2) if not isinstance(t, str)]:
        res['instances'] += 1
        res['programs'] += 1
        res['nontrivial'] += 1
        bad = replay_export(which, shape, cards, [t])
        if bad:
            res['disagreements_checked'] += 1
            k = bad[0].split('[')[1].split(']')[0]
            if k in keys:
                continue
            keys.add(k)
            res['violations'].append({'label': which + '-export', 'detail': bad[0], 'replay_func': 'replay_export', 'replay_args': [which, shape, cards, [t]]})
    res['sample'] = {'writer': which, 'family': 'all depth<=2 trees over F1,F3'}
    return res


def batches(tier, seed):
    N = 4 if tier == 'quick' else 5
    total = len(R.shapes(N))
    step = total // 7 + 1
    b = []
    for which in ('splot', 'pl'):
        b += [('batch_exports', [which, N, lo, lo + step, seed + lo, 1, 1 if tier == 'quick' else 3]) for lo in range(0, total, step)]
        b.append(('batch_all_ops', [which, seed]))
        b.append(('batch_dups', [which]))
    return b


WITNESSES = {}


def info(tier):
    return {
        'assumptions': ['each export is a program; its meaning is given by the independent interpreters in fmverif/props/interp.py (SXFM tree/group lines + CNF clauses; .exp formulas with not > and > or/XOR > -> > <->)',
                        'models: all shapes up to N, every 0<=min<=max<=k with max>=1, constraints over the eight logical operators; names are the placeholders F0..Fn and, for every (shape, cards), one of %d lists of identifier-like names that contain one another, are pieces of the connective words, or differ by case / underscore (SPLOT also blanks, hyphens, non-ASCII); names equal to a connective of the target format (and, or, not, XOR, MUX) are outside the claim (the formats cannot quote them); operator names of the constraint language (AND, OR, NOT, IMPLIES, ...) are inside since the serialiser repair' % (len(NAME_LISTS) + len(SPLOT_ONLY_LISTS)),
                        'the 2^n selections are decided by one z3 query per program (source semantics xor interpreted export, unsat)',
                        'AST.get_clauses (flamapy.core) is executed as is'],
        'coverage': {'functions_encoded': ['SPLOTWriter.transform', 'splot_writer.fm_to_splot/add_features/add_constraints', 'PLWriter.transform', 'pl_writer.to_exp/get_relation_formula/get_*_formula/get_constraint_formula',
                                           'flamapy.core AST.get_clauses/convert_into_cnf (dependency)'],
                     'bounds': {'shapes': 'N<=%d' % (4 if tier == 'quick' else 5), 'constraints': '1-2 trees of depth<=1 per model + all depth<=2 trees over two names on one model'},
                     'stubs': []},
    }


# -- E1: the name quantifier -----------------------------------------------------------------------------
# The programs above are interpreted for concrete name lists. For *every* name the solver decides that the
# export is the placeholder export with the name put where the placeholder stands (and nowhere else): the
# export of the placeholder model is proved equivalent by the z3 batches, so the same holds for every name
# that the target format reads as one identifier distinct from its keywords and from the other names.
PLACEHOLDER = 'Qz7'
NAME_TREES = [('IMPLIES', 'F1', 'F2'), ('AND', 'F1', ('NOT', 'F2')), ('OR', ('NOT', 'F1'), 'F0'), ('EXCLUDES', 'F2', 'F1'),
              ('EQUIVALENCE', 'F1', ('XOR', 'F2', 'F0')), ('REQUIRES', 'F1', 'F0')]
IDENT_CHARS = 'abcdefghijklmnopqrstuvwxyzABCDEFGHIJKLMNOPQRSTUVWXYZ0123456789_'


def _name_model(shape, pos, name, in_ctcs=True):
    n = R.n_features(shape)
    names = ['F%d' % i for i in range(n)]
    names[pos] = name
    mp = {'F%d' % i: names[i] for i in range(n)}
    trees = [_ren(t, mp) for t in NAME_TREES if all(int(x[1:]) < n for x in R.tree_names(t)) and (in_ctcs or 'F%d' % pos not in R.tree_names(t))]
    cards = R.default_cards(shape)
    return R.build(shape, cards, names=names, ctcs=[R.ctc('c%d' % i, t) for i, t in enumerate(trees)])


def _subst_equal(text, template, name) -> bool:
    """text == template with every PLACEHOLDER replaced by name. The comparison walks through the text piece by
    piece (slices at offsets that depend on len(name) only): equality of two long symbolic concatenations, or a
    split of the symbolic text, makes the engine enumerate characters (measured: no verdict in 60 s; the walk
    confirms in 22 s on the same condition)."""
    parts = template.split(PLACEHOLDER)
    k = len(name)
    if len(text) != len(template) + (k - len(PLACEHOLDER)) * (len(parts) - 1):
        return False
    off = 0
    for i, p in enumerate(parts):
        if i > 0:
            if text[off:off + k] != name:
                return False
            off += k
        if text[off:off + len(p)] != p:
            return False
        off += len(p)
    return True


def name_commutes(which, shape, pos, name) -> bool:
    from crosshair.tracers import NoTracing
    # SPLOT clauses come from flamapy.core get_clauses, which puts the literals into sets (hashing realises a symbolic
    # name: measured, no verdict): there the symbolic name stays out of the constraints (tree lines only)
    m = _name_model(shape, pos, name, which == 'pl')
    with NoTracing():
        mt = _name_model(shape, pos, PLACEHOLDER, which == 'pl')
        if which == 'pl':
            tlines = pl_writer.to_exp(mt)
        else:
            tlines = SPLOTWriter(None, mt).transform().split('\n')
    if which == 'pl':
        lines = pl_writer.to_exp(m)
        if len(lines) != len(tlines):
            return False
        for got, tmpl in zip(lines, tlines):
            if PLACEHOLDER in tmpl:
                if not _subst_equal(got, tmpl, name):
                    return False
            elif got != tmpl:
                return False
        return True
    text = SPLOTWriter(None, m).transform()
    return _subst_equal(text, '\n'.join(tlines), name)


def conditions(tier, seed):
    from ..runner import Cond
    from .common import indexed_shapes
    conds = []
    N = 4
    L = 3 if tier == 'quick' else 4
    kw = sorted(set(str(c.value) for c in PLWriter.LogicConnective))
    for si, shape in indexed_shapes(N, 3, siblings=False):
        n = R.n_features(shape)
        for which in ('pl', 'splot'):
            if tier == 'quick' and (si + (which == 'pl')) % 2:
                continue
            # SPLOT: never the root (its name goes through str.replace, which realises a symbolic string: measured, no verdict)
            pos = (si + seed) % n if which == 'pl' else 1 + (si + seed) % (n - 1)
            others = ['F%d' % i for i in range(n) if i != pos] + (kw if which == 'pl' else [])
            conds.append(Cond(
                name='c10_name_%s_%d' % (which, si), imports='from fmverif.props import c10 as P\nSHAPE_%d = %r\n' % (si, shape), params='name: str',
                pre=['1 <= len(name) <= %d' % L, 'all(c in %r for c in name)' % IDENT_CHARS, 'name[0] not in "0123456789"',
                     'all(len(name) != len(o) or name != o for o in %r)' % (others,)],
                body='P.name_commutes(%r, SHAPE_%d, %d, name)' % (which, si, pos), timeout=60 if tier == 'quick' else 200,
                aspect='%s export of the model with a symbolic feature name == export of the placeholder model with the name substituted (tree lines and constraints)' % which,
                sample={'shape': R.shape_str(shape), 'symbolic': 'name of F%d (identifier characters, not a connective of the format)' % pos, 'constraints': len(NAME_TREES)},
                validate=[('AND',), ('Or',), ('x',), ('IMPLIES',), ('NOT',), ('F',)][: (6 if n > 2 else 3)]))
    return conds
