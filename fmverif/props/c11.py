"""C11 - Clafer export denotes exactly the model's configurations."""
from __future__ import annotations

import itertools
import random

from flamapy.metamodels.fm_metamodel.models import Attribute
from flamapy.metamodels.fm_metamodel.transformations import ClaferWriter

from .. import refsem as R
from ..known import known
from .common import totuple
from . import interp
from .c07 import in_fragment_shape
from .c14 import _index

ID = 'C11'
LEVEL = 'translation_validation'


def fragment_cards(shape):
    rels = R.relations_of(shape)
    opts = [([(0, 1), (1, 1)] if len(cs) == 1 else [(a, b) for a in range(len(cs) + 1) for b in range(max(a, 1), len(cs) + 1)]) for _, cs in rels]
    return [list(c) for c in itertools.product(*opts)]


def check_export(shape, cards, trees, names, attrs) -> list:
    import z3
    n = R.n_features(shape)
    names = names or ['F%d' % i for i in range(n)]
    m = R.build(shape, cards, names=names, ctcs=[R.ctc('c%d' % i, t) for i, t in enumerate(trees)])
    feats = _index(m)
    for fi, aname, value in (attrs or []):
        feats[fi].add_attribute(Attribute(aname, None, value, None))
    snap = R.snapshot(m)
    text = ClaferWriter(None, m).transform()
    ctx = z3.Context()
    T, var = R.tree2z3(shape, cards, z3, ctx)
    env = {names[i]: var[i] for i in range(n)}
    C = [R.tree2z3_expr(t, env, z3, ctx) for t in trees]
    src = z3.And([T] + C, ctx)
    try:
        E, ivar, info = interp.clafer2z3(text, z3, ctx)
    except interp.FormatError as exc:
        ops = [o for t in trees for o in _ops(t)]
        return [('unreadable', 'export is not a document of the emitted Clafer subset: %s' % exc)]
    out = []
    missing = [nm for nm in names if nm not in ivar]
    if missing:
        return [('feature-missing', 'export lacks features %r' % missing)]
    link = z3.And([env[nm] == ivar[nm] for nm in names], ctx)
    r = R.decide(z3, ctx, link, z3.Xor(src, E, ctx))
    if r == 'sat':
        s = z3.Solver(ctx=ctx)
        s.add(link, z3.Xor(src, E, ctx))
        s.check()
        mdl = s.model()
        sel = [nm for nm in names if z3.is_true(mdl.eval(env[nm], model_completion=True))]
        out.append(('not-equivalent', 'export and model disagree on selection %r (valid in the model: %s)' % (sel, z3.is_true(mdl.eval(src, model_completion=True)))))
    elif r != 'unsat':
        raise RuntimeError('solver unknown')
    declared = info['attr_declared']
    for used, val in info['attr_used']:
        if used not in declared:
            out.append(('identifier', 'attribute %s is used but declared as one of %r' % (used, declared)))
    want_attrs = sorted({a for _, a, _ in (attrs or [])})
    if len(declared) != len(set(declared)) or len(declared) != len(want_attrs):
        out.append(('identifier', 'attribute declarations %r do not match the attributes %r' % (declared, want_attrs)))
    if len(info['attr_used']) != len(attrs or []):
        out.append(('identifier', '%d attribute assignments for %d attributes' % (len(info['attr_used']), len(attrs or []))))
    if R.snapshot(m) != snap:
        out.append(('mutated', 'writer modified the model'))
    return out


def _ops(t):
    if not isinstance(t, tuple):
        return []
    o = [t[0]]
    for x in t[1:]:
        o += _ops(x)
    return o


def replay_export(shape, cards, trees, names, attrs):
    shape = totuple(shape)
    cards = [tuple(c) for c in cards]
    trees = [totuple(t) for t in trees]
    attrs = [tuple(a) for a in attrs] if attrs else None
    try:
        found = check_export(shape, cards, trees, names, attrs)
    except Exception as exc:
        return ['Clafer export raises %s: %s (shape %s cards %r ctcs %r)' % (type(exc).__name__, exc, R.shape_str(shape), cards, trees)]
    return ['%s [%s] shape %s cards %r ctcs %r names %r attrs %r' % (msg, key, R.shape_str(shape), cards, trees, names, attrs)
            for key, msg in found if not known('C11', key)]


def batch_exports(max_n, lo, hi, seed, per_model):
    rnd = random.Random(seed)
    res = {'instances': 0, 'nontrivial': 0, 'violations': [], 'native_runs': 0, 'programs': 0, 'disagreements_checked': 0}
    keys = set()
    shapes = [s for s in R.shapes(max_n) if in_fragment_shape(s)]
    for shape in shapes[lo:hi]:
        n = R.n_features(shape)
        names = ['F%d' % i for i in range(n)]
        pool = [t for t in R.logical_trees(names[:3], 1) if not isinstance(t, str)] if n >= 2 else []
        for cards in fragment_cards(shape):
            cases = [([], None, None)]
            for _ in range(per_model if pool else 0):
                attrs = [(rnd.randrange(n), rnd.choice(['cost', 'w', 'my_name']), rnd.choice([3, -1, True, False, 2.5, 'txt', ''])) for _ in range(rnd.randint(0, 2))]
                attrs = [a for i, a in enumerate(attrs) if a[1] not in [b[1] for b in attrs[:i] if b[0] == a[0]]]
                # one type per attribute name
                seen = {}
                attrs = [a for a in attrs if seen.setdefault(a[1], type(a[2])) is type(a[2])]
                cases.append(([rnd.choice(pool) for _ in range(rnd.randint(1, 2))], None, attrs))
            if n >= 2:      # names that contain one another / pieces of the connective words / case variants (lists of C10)
                from .c10 import pick_names, _ren
                nm = pick_names('clafer', rnd.randrange(1000), n)
                mp = {'F%d' % i: nm[i] for i in range(n)}
                tr = [_ren(rnd.choice(pool), mp)] if pool and rnd.random() < 0.7 else []
                at = [(rnd.randrange(n), nm[-1] + 'q', 3), (rnd.randrange(n), nm[0] + nm[-1], True)] if rnd.random() < 0.5 else None
                cases.append((tr, nm, at))
            for trees, nm, attrs in cases:
                res['instances'] += 1
                res['programs'] += 1
                res['nontrivial'] += 1
                res['native_runs'] += 1
                bad = replay_export(shape, cards, trees, nm, attrs)
                if bad:
                    res['disagreements_checked'] += 1
                    k = bad[0].split('[')[1].split(']')[0] if '[' in bad[0] else bad[0][:20]
                    if k in keys and len(res['violations']) >= 3:
                        continue
                    keys.add(k)
                    res['violations'].append({'label': 'clafer-export', 'detail': bad[0], 'replay_func': 'replay_export', 'replay_args': [shape, cards, trees, nm, attrs]})
                res['sample'] = {'shape': R.shape_str(shape), 'cards': cards, 'constraints': trees, 'attrs': attrs}
        if len(res['violations']) >= 8:
            break
    return res


def batch_ops_and_names(seed):
    res = {'instances': 0, 'nontrivial': 0, 'violations': [], 'native_runs': 0, 'programs': 0, 'disagreements_checked': 0}
    shape = (((),), ((((), ()),),))
    keys = set()

    def run(args):
        res['instances'] += 1
        res['programs'] += 1
        res['nontrivial'] += 1
        bad = replay_export(*args)
        if bad:
            res['disagreements_checked'] += 1
            k = bad[0].split('[')[1].split(']')[0] if '[' in bad[0] else bad[0][:20]
            if k not in keys:
                keys.add(k)
                res['violations'].append({'label': 'clafer-export', 'detail': bad[0], 'replay_func': 'replay_export', 'replay_args': args})
    for cards in ([(1, 1), (0, 1), (1, 2)], [(0, 1), (1, 1), (0, 1)], [(1, 1), (1, 1), (0, 2)]):
        for t in [t for t in R.logical_trees(['F1', 'F3'], 2) if not isinstance(t, str)][::7]:
            run([shape, cards, [t], None, None])
    for t in [t for t in R.logical_trees(['F1', 'F3', 'F4'], 1) if not isinstance(t, str)]:
        run([shape, [(1, 1), (0, 1), (1, 2)], [t], None, [(1, 'cost', 3), (3, 'cost', 4), (4, 'label', 'x')]])
    # identifiers that need quoting, in declarations and uses
    for w in ['a b', 'x-y', 'né', '1st']:
        names = ['F0', 'F1', 'F2', w, 'F4']
        run([shape, [(1, 1), (0, 1), (1, 2)], [('IMPLIES', w, 'F1'), ('NOT', ('AND', w, 'F4'))], names, [(3, w, 1), (1, 'plain', 2), (4, w, 5)]])
    res['sample'] = {'family': 'depth<=2 trees over F1,F3; quoted identifiers'}
    return res


def batch_dups():
    """repeated / case-variant constraints must all reach the export (see c10.batch_dups)."""
    from . import rt
    res = {'instances': 0, 'nontrivial': 0, 'violations': [], 'native_runs': 0, 'programs': 0, 'disagreements_checked': 0}
    extra = [[('REQUIRES', 'Gui', 'Core'), ('EXCLUDES', 'GUI', 'Core')], [('IMPLIES', 'Core', 'Gui'), ('IMPLIES', 'core', 'GUI')]]
    for trees in rt.DUP_CTC_SETS + extra:
        names = list(rt.DUP_NAMES) if not any('core' in R.tree_names(t) for t in trees) else ['Root', 'Gui', 'GUI', 'Core', 'core']
        shape = rt.DUP_SHAPE if len(names) == 4 else (((),), ((),), ((),), ((),))
        for cards in ([(0, 1)] * (len(names) - 1), [(1, 1)] + [(0, 1)] * (len(names) - 2)):
            args = [shape, cards, trees, names, None]
            res['instances'] += 1
            res['programs'] += 1
            res['nontrivial'] += 1
            res['native_runs'] += 1
            bad = replay_export(*args)
            if bad:
                res['disagreements_checked'] += 1
                res['violations'].append({'label': 'clafer-export', 'detail': bad[0], 'replay_func': 'replay_export', 'replay_args': args})
    res['sample'] = {'names': rt.DUP_NAMES, 'constraints': rt.DUP_CTC_SETS[0]}
    return res


def batches(tier, seed):
    N = 4 if tier == 'quick' else 5
    total = len([s for s in R.shapes(N) if in_fragment_shape(s)])
    step = total // 12 + 1
    b = [('batch_exports', [N, lo, lo + step, seed + lo, 3 if tier == 'quick' else 6]) for lo in range(0, total, step)]
    b.append(('batch_ops_and_names', [seed]))
    b.append(('batch_dups', []))
    return b


def info(tier):
    return {
        'assumptions': ['Clafer fragment: every feature has only mandatory/optional single children or exactly one group (xor / or / mux / a..b)',
                        'the export is a program interpreted by fmverif/props/interp.py clafer2z3 (indentation hierarchy, group prefix, ?, abstract root + instance, [attr = v], [constraints] with && || => <=> not xor)',
                        'the 2^n selections are decided by one z3 query per program; identifier consistency is checked on the parsed declarations / uses',
                        'attribute values bool/int/float/str; one value type per attribute name',
                        'names: placeholders F0..Fn and, per (shape, cards), one list of identifier-like names that contain one another, are pieces of connective words or differ by case / underscore; identifiers that need quoting in a separate batch; Clafer keywords as names are outside the claim'],
        'coverage': {'functions_encoded': ['ClaferWriter.transform', 'clafer_writer.fm_to_clafer/read_features/read_feature_attributes/parse_group_type/read_constraints/serialize_constraint/attributes_definition/parse_type_value/safename'],
                     'bounds': {'shapes': 'N<=%d within the fragment' % (4 if tier == 'quick' else 5), 'constraints': '1-2 trees of depth<=1 per model + sampled depth-2 trees'},
                     'stubs': []},
    }


# -- E1: the name quantifier (see c10: the export of a model with a symbolic feature / attribute name is the
# placeholder export with the name substituted, so the z3 verdict on the placeholder program carries over to
# every name the Clafer subset reads as one identifier that is not a keyword) -------------------------------
CLAFER_WORDS = ['abstract', 'xor', 'or', 'mux', 'opt', 'not', 'if', 'then', 'else', 'in', 'all', 'no', 'one', 'lone', 'some', 'this', 'parent',
                'integer', 'int', 'string', 'double', 'boolean', 'real', 'enum', 'sum', 'product', 'max', 'min', 'AttributedFeature', 'CP']


def _name_model(shape, pos, name, attr_name):
    from .c10 import NAME_TREES, _ren
    n = R.n_features(shape)
    names = ['F%d' % i for i in range(n)]
    names[pos] = name
    mp = {'F%d' % i: names[i] for i in range(n)}
    trees = [_ren(t, mp) for t in NAME_TREES if all(int(x[1:]) < n for x in R.tree_names(t))]
    cards = [((1, 1) if len(cs) == 1 else (1, len(cs))) if i % 2 == 0 else ((0, 1) if len(cs) == 1 else (1, 1)) for i, (_, cs) in enumerate(R.relations_of(shape))]
    m = R.build(shape, cards, names=names, ctcs=[R.ctc('c%d' % i, t) for i, t in enumerate(trees)])
    feats = _index(m)
    feats[pos].add_attribute(Attribute(attr_name, None, 3, None))
    feats[0].add_attribute(Attribute('flag', None, True, None))
    return m


def name_commutes(shape, pos, name, as_attribute) -> bool:
    from crosshair.tracers import NoTracing
    from .c10 import PLACEHOLDER, _subst_equal
    fname, aname = (('F%d' % pos, name) if as_attribute else (name, 'cost'))
    m = _name_model(shape, pos, fname, aname)
    with NoTracing():
        tmpl = ClaferWriter(None, _name_model(shape, pos, 'F%d' % pos if as_attribute else PLACEHOLDER, PLACEHOLDER if as_attribute else 'cost')).transform()
    text = ClaferWriter(None, m).transform()
    return _subst_equal(text, tmpl, name)


def conditions(tier, seed):
    from ..runner import Cond
    from .common import indexed_shapes
    from .c10 import IDENT_CHARS
    conds = []
    L = 3 if tier == 'quick' else 4
    for si, shape in indexed_shapes(4, 3, siblings=False):
        if not in_fragment_shape(shape):
            continue
        n = R.n_features(shape)
        for as_attr in (0,):       # attribute names are keys of a dict in attributes_definition (hashing realises them: measured, no verdict): native lists only
            pos = 1 + (si + seed) % (n - 1)       # never the root: with the symbolic name on the root no verdict was reached (measured); root names by the native lists
            others = (['F%d' % i for i in range(n) if i != pos] if not as_attr else ['flag']) + CLAFER_WORDS
            conds.append(Cond(
                name='c11_name_%s_%d' % ('attr' if as_attr else 'feat', si), imports='from fmverif.props import c11 as P\nSHAPE_%d = %r\n' % (si, shape), params='name: str',
                pre=['1 <= len(name) <= %d' % L, 'all(c in %r for c in name)' % IDENT_CHARS, 'name[0] not in "0123456789"',
                     'all(len(name) != len(o) or name != o for o in %r)' % (others,)],
                body='P.name_commutes(SHAPE_%d, %d, name, %d)' % (si, pos, as_attr), timeout=60 if tier == 'quick' else 200,
                aspect='Clafer export with a symbolic %s name == placeholder export with the name substituted (declarations, attribute block, constraints)' % ('attribute' if as_attr else 'feature'),
                sample={'shape': R.shape_str(shape), 'symbolic': ('name of an attribute of F%d' if as_attr else 'name of F%d') % pos},
                validate=[('AND',), ('Or',), ('x',), ('XOR',), ('NOT',), ('F',)]))
    return conds
