"""C12 - serialisation is pure, deterministic and returns what it wrote."""
from __future__ import annotations

import ast
import importlib
import inspect
import json
import os
import random
import subprocess
import sys
import types

from flamapy.metamodels.fm_metamodel.models import Attribute, Domain, Range
from flamapy.metamodels.fm_metamodel.transformations import (
    UVLWriter, AFMWriter, JSONWriter, GlencoeWriter, FeatureIDEWriter, SPLOTWriter, ClaferWriter)
from flamapy.metamodels.fm_metamodel.transformations.pl_writer import PLWriter

from .. import refsem as R
from ..known import known
from ..runner import Cond
from .common import cards_params, indexed_shapes, totuple
from . import rt
from .c14 import _index

ID = 'C12'
LEVEL = 'model_checking'

WRITERS = [('uvl', UVLWriter), ('afm', AFMWriter), ('json', JSONWriter), ('glencoe', GlencoeWriter), ('featureide', FeatureIDEWriter),
           ('splot', SPLOTWriter), ('clafer', ClaferWriter), ('pl', PLWriter)]
WMODS = {'uvl': 'uvl_writer', 'afm': 'afm_writer', 'json': 'json_writer', 'glencoe': 'glencoe_writer', 'featureide': 'featureide_writer',
         'splot': 'splot_writer', 'clafer': 'clafer_writer', 'pl': 'pl_writer'}
PKG = 'flamapy.metamodels.fm_metamodel.transformations.'
CTC = [('IMPLIES', 'F0', 'F1'), ('OR', ('NOT', 'F1'), ('AND', 'F0', 'F1')), ('EXCLUDES', 'F1', 'F0'), ('EQUIVALENCE', 'F0', ('NOT', 'F1')),
       ('XOR', 'F0', 'F1'), ('REQUIRES', 'F1', ('XOR', ('NOT', 'F0'), 'F1'))]      # every one of the eight logical operators occurs


def model(shape, cards, names=None, with_attrs=True, with_xor=True):
    n = R.n_features(shape)
    # default names and constraint names are deliberately NOT in sorted order: a writer that sorts one of the
    # model's own lists in place (instead of a copy) must show up in the order-preserving snapshot
    names = names or ['F%d' % (n - 1 - i) for i in range(n)]
    trees = [_ren(t, names) for t in CTC if with_xor or 'XOR' not in repr(t)] if n >= 2 else []
    m = R.build(shape, cards, names=names, abstract=[i % 2 == 1 for i in range(n)], ctcs=[R.ctc('c%d' % (len(trees) - i), t) for i, t in enumerate(trees)])
    if with_attrs:
        feats = _index(m)
        feats[0].add_attribute(Attribute('cost', Domain([Range(0, 9)], None), '3', '0'))
        feats[n - 1].add_attribute(Attribute('lvl', Domain(None, ['a', 'b']), 'a', 'b'))
    return m


def _ren(t, names):
    if isinstance(t, tuple):
        return (t[0],) + tuple(_ren(x, names) for x in t[1:])
    return {'F0': names[0], 'F1': names[1]}[t]


def pure(shape, cards, wi) -> bool:
    """writer wi: model unchanged, three calls give the same value."""
    label, cls = WRITERS[wi]
    m = model(shape, cards)
    before = R.snapshot(m)
    w = cls(None, m)
    out1 = w.transform()
    if R.snapshot(m) != before:
        return False
    out2 = w.transform()                  # the same writer object again: no state of the first call survives
    out3 = cls(None, m).transform()       # and a fresh one
    if R.snapshot(m) != before:
        return False
    return same(out1, out2) and same(out2, out3)


def same(a, b) -> bool:
    return type(a) is type(b) and len(a) == len(b) and a == b


class Sink:
    """stub file object: records mode, encoding and what is written (pieces stay symbolic)."""
    opened = []

    def __init__(self, path, mode='r', encoding=None, **kw):
        self.path, self.mode, self.encoding, self.parts = path, mode, encoding, []
        Sink.opened.append(self)

    def write(self, data):
        self.parts.append(data)
        return len(data)

    def __enter__(self):
        return self

    def __exit__(self, *a):
        return False

    def content(self):
        if 'b' in self.mode:
            return b''.join(self.parts)
        out = ''
        for p in self.parts:
            out = out + p
        return out


def returns_what_it_writes(shape, pos, name, wi) -> bool:
    """the `open` of the writer module is replaced by a sink; returned value == written content,
    text files are opened with an explicit UTF-8 encoding."""
    label, cls = WRITERS[wi]
    n = R.n_features(shape)
    names = ['F%d' % i for i in range(n)]
    names[pos] = name
    m = model(shape, R.default_cards(shape), names=names, with_attrs=(label != 'afm' or True))
    mod = importlib.import_module(PKG + WMODS[label])
    Sink.opened = []
    had = 'open' in mod.__dict__
    old = mod.__dict__.get('open')
    mod.open = Sink
    try:
        w = cls('/virtual/out.file', m)
        ret = w.transform()
        ret2 = w.transform()       # the same writer object writes the file a second time
    finally:
        if had:
            mod.open = old
        else:
            del mod.open
    if len(Sink.opened) != 2:
        return False
    for s, r in zip(Sink.opened, (ret, ret2)):
        if 'w' not in s.mode:
            return False
        if 'b' not in s.mode:
            if s.encoding is None or s.encoding.lower().replace('-', '') != 'utf8':
                return False
        if len(s.parts) == 1 and s.parts[0] is r:
            continue               # the very object that was returned was written
        if not same(s.content(), r):
            return False
    # full equality of two long symbolic texts does not finish; their lengths are cheap (pure() compares the texts)
    return type(ret) is type(ret2) and len(ret) == len(ret2)


# -- hash-seed independence: set iteration order as an arbitrary permutation -------------------------


class NDSet:
    """list-backed set whose iteration order is a permutation chosen by an oracle code."""
    oracle = 0
    created = 0

    def __init__(self, items=()):
        self.items = []
        for x in items:
            if not any(x == y for y in self.items):
                self.items.append(x)
        NDSet.created += 1

    def _order(self):
        items = list(self.items)
        code = NDSet.oracle
        out = []
        k = len(items)
        while k > 0:
            out.append(items.pop(code % k))
            code = code // k
            k -= 1
        return out

    def __iter__(self):
        return iter(self._order())

    def __len__(self):
        return len(self.items)

    def __contains__(self, x):
        return any(x == y for y in self.items)

    def __sub__(self, other):
        return NDSet([x for x in self.items if x not in other])

    def __or__(self, other):
        return NDSet(list(self.items) + list(other))

    def __and__(self, other):
        return NDSet([x for x in self.items if x in other])

    def add(self, x):
        if x not in self:
            self.items.append(x)

    def __eq__(self, other):
        return isinstance(other, NDSet) and len(self) == len(other) and all(x in other for x in self.items)

    def __bool__(self):
        return bool(self.items)


class _SetRewriter(ast.NodeTransformer):
    def __init__(self):
        self.count = 0

    def visit_Set(self, node):
        self.generic_visit(node)
        self.count += 1
        return ast.copy_location(ast.Call(ast.Name('NDSet', ast.Load()), [ast.List(node.elts, ast.Load())], []), node)

    def visit_SetComp(self, node):
        self.generic_visit(node)
        self.count += 1
        return ast.copy_location(ast.Call(ast.Name('NDSet', ast.Load()), [ast.ListComp(node.elt, node.generators)], []), node)

    def visit_Call(self, node):
        self.generic_visit(node)
        if isinstance(node.func, ast.Name) and node.func.id in ('set', 'frozenset'):
            self.count += 1
            return ast.copy_location(ast.Call(ast.Name('NDSet', ast.Load()), node.args, []), node)
        return node


_REWRITTEN = {}


def rewritten(label):
    """the writer module re-loaded from /repo's current source with every set turned into NDSet."""
    if label in _REWRITTEN:
        return _REWRITTEN[label]
    with rt.NoTracing():
        return _rewrite(label)


def _rewrite(label):
    mod = importlib.import_module(PKG + WMODS[label])
    src = inspect.getsource(mod)
    tree = ast.parse(src)
    rw = _SetRewriter()
    tree = ast.fix_missing_locations(rw.visit(tree))
    new = types.ModuleType(mod.__name__ + '__ndset')
    new.__dict__['NDSet'] = NDSet
    new.__dict__['__name__'] = mod.__name__          # relative imports inside the package keep working
    new.__dict__['__package__'] = mod.__package__
    exec(compile(tree, mod.__file__, 'exec'), new.__dict__)
    _REWRITTEN[label] = (new, rw.count)
    return _REWRITTEN[label]


CLSNAME = {'uvl': 'UVLWriter', 'afm': 'AFMWriter', 'json': 'JSONWriter', 'glencoe': 'GlencoeWriter', 'featureide': 'FeatureIDEWriter',
           'splot': 'SPLOTWriter', 'clafer': 'ClaferWriter', 'pl': 'PLWriter'}


def order_independent(shape, cards, wi, code) -> bool:
    label, _ = WRITERS[wi]
    mod, nsets = rewritten(label)
    cls = getattr(mod, CLSNAME[label])
    m = model(shape, cards)
    NDSet.oracle = 0
    base = cls(None, m).transform()
    NDSet.oracle = code
    try:
        out = cls(None, m).transform()
    finally:
        NDSet.oracle = 0
    return same(base, out)


def set_constructs():
    return {label: rewritten(label)[1] for label, _ in WRITERS}


# re-load every writer module once at import time (outside any tracing)
for _label, _cls in WRITERS:
    rewritten(_label)


# -- native: real files, processes, hash seeds, locales --------------------------------------------

CHILD = r'''
import sys, json, hashlib, os
sys.setrecursionlimit(10000)
from fmverif.props import c12
from fmverif import refsem as R
shape = json.loads(sys.argv[1]); cards = json.loads(sys.argv[2]); names = json.loads(sys.argv[3]); outdir = sys.argv[4]
shape = c12.totuple(shape); cards = [tuple(c) for c in cards]
res = {}
for label, cls in c12.WRITERS:
    m = c12.model(shape, cards, names=(names if label != 'afm' else None), with_xor=(label != 'uvl'))      # the UVL file is read back: UVL has no xor
    p = os.path.join(outdir, 'out.' + label)
    ret = cls(p, m).transform()
    raw = open(p, 'rb').read()
    retb = ret if isinstance(ret, bytes) else ret.encode('utf-8')
    res[label] = {'sha': hashlib.sha1(raw).hexdigest(), 'ret_eq_file': retb == raw}
from flamapy.metamodels.fm_metamodel.transformations import UVLReader, JSONReader, GlencoeReader, FeatureIDEReader
back = {}
try:
    back['uvl'] = sorted(f.name for f in UVLReader(os.path.join(outdir, 'out.uvl')).transform().get_features())
    back['json'] = sorted(f.name for f in JSONReader(os.path.join(outdir, 'out.json')).transform().get_features())
except Exception as exc:
    back['error'] = '%s: %s' % (type(exc).__name__, exc)
res['_back'] = back
print(json.dumps(res))
'''


def process_matrix(shape, cards, names, envs) -> list:
    """the same model written by fresh interpreter processes under different hash seeds / locales."""
    shape = totuple(shape)
    cards = [tuple(c) for c in cards]
    here = os.path.dirname(os.path.dirname(os.path.dirname(os.path.abspath(__file__))))
    outs = []
    problems = []
    with rt.TempDir() as d:
        for i, env in enumerate(envs):
            e = dict(os.environ)
            for k in ('LC_ALL', 'LANG', 'LC_CTYPE', 'PYTHONUTF8', 'PYTHONIOENCODING', 'PYTHONCOERCECLOCALE'):
                e.pop(k, None)
            e.update(env)
            e['PYTHONPATH'] = (os.environ['FMV_REPO'] + os.pathsep + here) if os.environ.get('FMV_REPO') else here
            sub = os.path.join(d, 'p%d' % i)
            os.makedirs(sub)
            p = subprocess.run([sys.executable, '-c', CHILD, json.dumps(shape), json.dumps(cards), json.dumps(names), sub],
                               env=e, stdout=subprocess.PIPE, stderr=subprocess.PIPE, text=True, timeout=300)
            if p.returncode != 0:
                problems.append('writer process failed under %r: %s' % (env, p.stderr.strip().splitlines()[-1][:300] if p.stderr.strip() else p.returncode))
                continue
            outs.append((env, json.loads(p.stdout.strip().splitlines()[-1])))
    if not outs:
        return problems
    base_env, base = outs[0]
    want_names = sorted(names)
    for env, res in outs:
        for label, _ in WRITERS:
            if not res[label]['ret_eq_file']:
                problems.append('%s: returned value != file content under %r' % (label, env))
            if res[label]['sha'] != base[label]['sha']:
                problems.append('%s: output differs between %r and %r' % (label, base_env, env))
        back = res['_back']
        if 'error' in back:
            problems.append('read back fails under %r: %s' % (env, back['error']))
        else:
            for fmt in ('uvl', 'json'):
                if back[fmt] != want_names:
                    problems.append('%s: names read back %r != written %r under %r' % (fmt, back[fmt], want_names, env))
    return problems[:6]


# -- native: the output does not depend on what the process serialised before ------------------------

def model_variant(shape, cards, names, variant):
    """variant 0: as model(); 1: the children of every relation in reverse order (every relation compares
    and hashes equal to its original, the text differs); 2: the relations of every feature in reverse order."""
    m = model(shape, cards, names=names)
    if variant:
        reorder_in_place(m, variant)
    return m


def reorder_in_place(m, variant):
    for f in _index(m):
        if variant == 1:
            for r in f.relations:
                r.children.reverse()
        elif variant == 2:
            f.relations.reverse()


HIST_CHILD = r'''
import sys, json, hashlib, os
sys.setrecursionlimit(10000)
from fmverif.props import c12
steps = json.loads(sys.argv[1]); outdir = sys.argv[2]
res = []
m = None
for si, st in enumerate(steps):
    if st[0] == 'build':
        _, shape, cards, names, variant = st
        ms = {label: c12.model_variant(c12.totuple(shape), [tuple(c) for c in cards], (names if label != 'afm' else None), variant) for label, _ in c12.WRITERS}
    else:                                   # ('mutate', variant): the same objects, re-ordered in place
        for label in ms:
            c12.reorder_in_place(ms[label], st[1])
    out = {}
    for label, cls in c12.WRITERS:
        p = os.path.join(outdir, 'out%d.%s' % (si, label))
        cls(p, ms[label]).transform()
        out[label] = hashlib.sha1(open(p, 'rb').read()).hexdigest()
    res.append(out)
print(json.dumps(res))
'''


def _run_steps(steps, d, tag):
    here = os.path.dirname(os.path.dirname(os.path.dirname(os.path.abspath(__file__))))
    e = dict(os.environ)
    e['PYTHONPATH'] = (os.environ['FMV_REPO'] + os.pathsep + here) if os.environ.get('FMV_REPO') else here
    e['PYTHONHASHSEED'] = '0'
    sub = os.path.join(d, tag)
    os.makedirs(sub)
    p = subprocess.run([sys.executable, '-c', HIST_CHILD, json.dumps(steps), sub], env=e, stdout=subprocess.PIPE, stderr=subprocess.PIPE, text=True, timeout=300)
    if p.returncode != 0:
        raise RuntimeError('writer process failed: %s' % (p.stderr.strip().splitlines()[-1][:300] if p.stderr.strip() else p.returncode))
    return json.loads(p.stdout.strip().splitlines()[-1])


def history_matrix(spec_a, spec_b, mutate) -> list:
    """'The output is a function of the model alone': process 1 writes A, then B, then (mutate != 0) re-orders
    B's objects in place and writes again; process 2 writes the re-ordered B first (fresh interpreter), then B,
    then A. Every model must give the same bytes in both processes, whatever was written before it."""
    a = ['build'] + list(spec_a)
    b = ['build'] + list(spec_b)
    bm = ['build'] + list(spec_b[:3]) + [mutate]      # only meaningful when spec_b's variant is 0
    problems = []
    with rt.TempDir() as d:
        try:
            p1 = _run_steps([a, b] + ([['mutate', mutate]] if mutate else []), d, 'p1')
            p2 = _run_steps(([bm] if mutate else []) + [b, a], d, 'p2')
        except RuntimeError as exc:
            return [str(exc)]
    off = 1 if mutate else 0
    for label, _ in WRITERS:
        if p1[0][label] != p2[off + 1][label]:
            problems.append('%s: the bytes written for model A differ between a fresh interpreter and one that wrote model B before' % label)
        if p1[1][label] != p2[off][label]:
            problems.append('%s: the bytes written for model B after writing model A differ from those written %s' % (label, 'after its re-ordered twin' if mutate else 'by a fresh interpreter'))
        if mutate and p1[2][label] != p2[0][label]:
            problems.append('%s: a model re-ordered in place after it was written is not written like the same model in a fresh interpreter' % label)
    return problems[:6]


def batch_history(max_n, seed, count):
    rnd = random.Random(seed)
    res = {'instances': 0, 'nontrivial': 0, 'violations': [], 'native_runs': 0}
    shapes = [s for s in R.shapes(max_n) if R.n_features(s) >= 3 and any(len(cs) > 1 for _, cs in R.relations_of(s))]
    for i in range(count):
        shape = rnd.choice(shapes)
        cards = rnd.choice(list(R.all_cards(shape)))
        kind = i % 4
        if kind == 0:      # B = A with the children of every relation reversed (relations compare equal)
            a, b, mut = [shape, cards, None, 0], [shape, cards, None, 1], 0
        elif kind == 1:    # B = same names, other cardinalities; then B re-ordered in place
            a, b, mut = [shape, cards, None, 0], [shape, rnd.choice(list(R.all_cards(shape))), None, 0], 1
        elif kind == 2:    # B = another shape over the same names; relations re-ordered in place
            s2 = rnd.choice([s for s in shapes if R.n_features(s) == R.n_features(shape)])
            a, b, mut = [shape, cards, None, 0], [s2, rnd.choice(list(R.all_cards(s2))), None, 0], 2
        else:              # B = A with the relations of every feature reversed
            a, b, mut = [shape, cards, None, 0], [shape, cards, None, 2], 0
        res['instances'] += 1
        res['native_runs'] += 2
        res['nontrivial'] += 1
        bad = history_matrix(a, b, mut)
        if bad:
            res['violations'].append({'label': 'writer-history', 'detail': bad[0] + ' | A = %s %r, B = %s %r variant %d, in-place re-ordering %d' % (R.shape_str(shape), cards, R.shape_str(totuple(b[0])), b[1], b[3], mut),
                                      'replay_func': 'history_matrix', 'replay_args': [a, b, mut]})
            if len(res['violations']) >= 3:
                return res
        res['sample'] = {'A': [R.shape_str(shape), cards], 'B': [R.shape_str(totuple(b[0])), b[1], 'variant %d' % b[3]], 'in_place': mut}
    return res


ENVS_QUICK = [{'PYTHONHASHSEED': '0'}, {'PYTHONHASHSEED': '1', 'LC_ALL': 'C', 'PYTHONUTF8': '0', 'PYTHONCOERCECLOCALE': '0'}, {'PYTHONHASHSEED': '12345', 'LC_ALL': 'POSIX', 'PYTHONIOENCODING': 'latin-1', 'PYTHONUTF8': '0', 'PYTHONCOERCECLOCALE': '0'}]
ENVS_THOROUGH = ENVS_QUICK + [{'PYTHONHASHSEED': str(s)} for s in (2, 3, 7, 99, 4242)] + [{'PYTHONHASHSEED': '5', 'PYTHONUTF8': '1'}, {'PYTHONHASHSEED': 'random'}]


def batch_processes(max_n, seed, count, thorough):
    rnd = random.Random(seed)
    res = {'instances': 0, 'nontrivial': 0, 'violations': [], 'native_runs': 0}
    shapes = [s for s in R.shapes(max_n) if R.n_features(s) >= 3]
    pool = ['Ünï', 'é', 'a b', 'Zed', 'x-y', 'K1', 'naïve', '€uro', 'q_r']
    for _ in range(count):
        shape = rnd.choice(shapes)
        n = R.n_features(shape)
        cards = rnd.choice(list(R.all_cards(shape)))
        names = rnd.sample(pool, n) if n <= len(pool) else None
        envs = ENVS_THOROUGH if thorough else ENVS_QUICK
        args = [shape, cards, names, envs]
        res['instances'] += 1
        res['native_runs'] += len(envs)
        res['nontrivial'] += 1
        bad = process_matrix(*args)
        if bad:
            res['violations'].append({'label': 'process-determinism', 'detail': bad[0] + ' | shape %s cards %r names %r' % (R.shape_str(shape), cards, names),
                                      'replay_func': 'process_matrix', 'replay_args': args})
            if len(res['violations']) >= 3:
                return res
        res['sample'] = {'shape': R.shape_str(shape), 'cards': cards, 'names': names, 'envs': envs[:3]}
    return res


def overwrite_ok(shape, cards, wi) -> list:
    """the destination file already exists: what it held before must not show in what is written. The path first
    holds (a) the output itself followed by extra text, (b) the output of the same model with one more constraint
    (the new output is a prefix-like part of the old one), (c) unrelated bytes; after transform() the file is exactly
    the value returned, which is the value a fresh path gets."""
    shape = totuple(shape)
    cards = [tuple(c) for c in cards]
    label, cls = WRITERS[wi]
    out = []
    with rt.TempDir() as d:
        m = model(shape, cards)
        fresh = os.path.join(d, 'fresh.' + label)
        ret0 = cls(fresh, m).transform()
        raw0 = open(fresh, 'rb').read()
        ret0b = ret0 if isinstance(ret0, bytes) else ret0.encode('utf-8')
        if raw0 != ret0b:
            return ['%s writer: file differs from the returned value on a fresh path' % label]
        big = model(shape, cards)
        names = [f.name for f in big.get_features()]
        big.ctcs.append(R.ctc('zlast', ('IMPLIES', names[-1], names[0])))
        for tag, before in (('own-output-plus-trailing-text', raw0 + b'\nTRAILING TEXT\n'), ('output-of-a-larger-model', None), ('unrelated-bytes', b'\xff\xfe garbage ' * 50)):
            p = os.path.join(d, tag + '.' + label)
            if before is None:
                cls(p, big).transform()
            else:
                open(p, 'wb').write(before)
            ret = cls(p, m).transform()
            raw = open(p, 'rb').read()
            retb = ret if isinstance(ret, bytes) else ret.encode('utf-8')
            if raw != retb or raw != raw0:
                out.append('%s writer onto an existing file (%s): the file holds %d bytes, the value returned %d, a fresh path gets %d (shape %s cards %r)'
                           % (label, tag, len(raw), len(retb), len(raw0), R.shape_str(shape), cards))
    return out


def batch_overwrite(max_n, seed):
    rnd = random.Random(seed)
    res = {'instances': 0, 'nontrivial': 0, 'violations': [], 'native_runs': 0}
    shapes = [s for s in R.shapes(max_n) if R.n_features(s) >= 2]
    for wi in range(len(WRITERS)):
        for shape in rnd.sample(shapes, min(4, len(shapes))):
            cards = rnd.choice(list(R.all_cards(shape)))
            res['instances'] += 1
            res['nontrivial'] += 1
            res['native_runs'] += 4
            try:
                bad = overwrite_ok(shape, cards, wi)
            except Exception as exc:
                bad = ['%s writer raises %s: %s when the destination exists' % (WRITERS[wi][0], type(exc).__name__, exc)]
            if bad:
                res['violations'].append({'label': 'overwrite-existing-file', 'detail': bad[0], 'replay_func': 'overwrite_ok', 'replay_args': [shape, cards, wi]})
                if len(res['violations']) >= 4:
                    return res
            res['sample'] = {'writer': WRITERS[wi][0], 'shape': R.shape_str(shape)}
    return res


def replay_pure(shape, cards, wi):
    shape = totuple(shape)
    cards = [tuple(c) for c in cards]
    try:
        ok = pure(shape, cards, wi)
    except Exception as exc:
        return ['%s writer raises %s: %s (shape %s cards %r)' % (WRITERS[wi][0], type(exc).__name__, exc, R.shape_str(shape), cards)]
    return [] if ok else ['%s writer modifies the model or is not repeatable (shape %s cards %r)' % (WRITERS[wi][0], R.shape_str(shape), cards)]


def batch_pure(max_n, lo, hi, seed):
    rnd = random.Random(seed)
    res = {'instances': 0, 'nontrivial': 0, 'violations': [], 'native_runs': 0, 'set_constructs_rewritten': set_constructs()}
    for shape in R.shapes(max_n)[lo:hi]:
        allc = list(R.all_cards(shape))
        pick = (allc if len(allc) <= 8 else rnd.sample(allc, 8))
        # an unbounded upper bound ([a..*], stored as -1) on each group in turn, and bounds above the number of members
        rels_ = R.relations_of(shape)
        for ri, (_, cs) in enumerate(rels_):
            if len(cs) > 1 and allc:
                for mn, mx in ((1, -1), (0, -1), (len(cs), -1), (1, len(cs) + 2)):
                    c2 = list(rnd.choice(allc))
                    c2[ri] = (mn, mx)
                    pick = pick + [c2]
        for cards in pick:
            for wi in range(len(WRITERS)):
                res['instances'] += 1
                res['native_runs'] += 3
                res['nontrivial'] += 1
                bad = replay_pure(shape, cards, wi)
                if bad:
                    res['violations'].append({'label': 'writer-pure', 'detail': bad[0], 'replay_func': 'replay_pure', 'replay_args': [shape, cards, wi]})
                    if len(res['violations']) >= 4:
                        return res
        res['sample'] = {'shape': R.shape_str(shape)}
    return res


def conditions(tier, seed):
    conds = []
    N = 4 if tier == 'quick' else 5
    T = 60 if tier == 'quick' else 200
    L = 2 if tier == 'quick' else 3
    imp0 = 'from fmverif.props import c12 as P\n'
    for si, shape in indexed_shapes(N, 2):
        n = R.n_features(shape)
        imp = imp0 + 'SHAPE_%d = %r\n' % (si, shape)
        cp, cpre, cexpr = cards_params(shape, star='groups')      # upper bound -1 = '*' on groups (a single child with [a..*] is outside several writers' fragments)
        dc = tuple(x for c in R.default_cards(shape) for x in c)
        for wi, (label, _) in enumerate(WRITERS):
            if tier == 'quick' and (wi + si) % 4 != 0:
                continue
            conds.append(Cond(name='c12_pure_%s_%d' % (label, si), imports=imp, params=cp, pre=cpre, body='P.pure(SHAPE_%d, %s, %d)' % (si, cexpr, wi), timeout=T,
                              aspect='%s writer: model unchanged, three calls equal (cards symbolic)' % label, sample={'shape': R.shape_str(shape), 'writer': label, 'symbolic': 'all (min,max)'},
                              validate=[dc]))
            conds.append(Cond(name='c12_order_%s_%d' % (label, si), imports=imp, params=cp + ', code: int', pre=cpre + ['0 <= code < 720'],
                              body='P.order_independent(SHAPE_%d, %s, %d, code)' % (si, cexpr, wi), timeout=T,
                              aspect='%s writer re-loaded with sets as permutable NDSet: output independent of the iteration order' % label,
                              sample={'shape': R.shape_str(shape), 'writer': label, 'symbolic': 'cards + permutation code of every set iteration'}, validate=[dc + (0,), dc + (5,)]))
        pos = (si + seed) % n
        for wi, (label, _) in enumerate(WRITERS):
            if label not in ('uvl', 'splot', 'featureide') or (tier == 'quick' and (wi + si) % 2 != 0):
                continue      # json/glencoe realise at the C encoder, clafer/pl run regexes on the text: names concrete there (process batch)
            conds.append(Cond(name='c12_ret_%s_%d' % (label, si), imports=imp, params='name: str',
                              pre=['1 <= len(name) <= %d' % L, 'all(len(name) != len(o) or name != o for o in %r)' % (['F%d' % i for i in range(n)],),
                                   'all(c not in name for c in [chr(34), ".", chr(10), chr(13), chr(39)])', 'all((" " <= c < chr(0xD800)) or c > chr(0xDFFF) for c in name)'],
                              body='P.returns_what_it_writes(SHAPE_%d, %d, name, %d)' % (si, pos, wi), timeout=T,
                              aspect='%s writer: returned value == content written, opened as UTF-8 (symbolic name incl. non-ASCII)' % label,
                              sample={'shape': R.shape_str(shape), 'writer': label, 'symbolic': 'one name'}, validate=[('Zz',), ('é',), ('a b',)]))
    return conds


def batches(tier, seed):
    N = 4 if tier == 'quick' else 5
    total = len(R.shapes(N))
    step = total // 8 + 1
    b = [('batch_pure', [N, lo, lo + step, seed + lo]) for lo in range(0, total, step)]
    b += [('batch_processes', [N, seed * 11 + i, 1 if tier == 'quick' else 6, tier != 'quick']) for i in range(4)]
    b += [('batch_history', [N, seed * 13 + i, 4 if tier == 'quick' else 24]) for i in range(4)]
    b += [('batch_overwrite', [N, seed * 17 + i]) for i in range(2 if tier == 'quick' else 8)]
    return b


def info(tier):
    return {
        'assumptions': ['set iteration order = arbitrary permutation: every writer module is re-loaded from the current source with set displays / comprehensions / set() calls turned into a list-backed NDSet whose iteration order is chosen by a symbolic Lehmer code',
                        'file objects: the module-level name open of each writer module is bound to a sink that records mode, encoding and the pieces written',
                        'fresh interpreter / hash seed / locale clauses: real sub-processes with PYTHONHASHSEED, LC_ALL, PYTHONUTF8, PYTHONIOENCODING varied (concrete runs, counted apart)',
                        'history clause: pairs of models over the same names (children reversed, relations reversed, other cardinalities, other shape; also the same objects re-ordered in place) written in two orders by two interpreter processes: every model must give the same bytes whatever was written before (concrete runs, counted apart)',
                        'models here may lie outside a format fragment: purity and determinism are required of every writer on every well-formed model'],
        'coverage': {'functions_encoded': [c.__name__ + '.transform' for _, c in WRITERS] + ['all module-level writer functions they call'],
                     'bounds': {'shapes': 'N<=%d' % (4 if tier == 'quick' else 5), 'permutation_codes': '0..719', 'name_len': 2 if tier == 'quick' else 3},
                     'stubs': ['open() of each writer module (sink)', 'set iteration order (NDSet)'], 'set_constructs_rewritten': set_constructs()},
    }
