"""C13 - configuration estimate: exact without constraints, an upper bound with."""
from __future__ import annotations

import random

from flamapy.metamodels.fm_metamodel.operations import FMEstimatedConfigurationsNumber
from flamapy.metamodels.fm_metamodel.operations.fm_estimated_configurations_number import (
    count_configurations, count_configurations_rec)

from .. import refsem as R
from ..known import known
from .common import cards_conditions, indexed_shapes, totuple, pair_batch, replay_pair  # noqa: F401

ID = 'C13'
LEVEL = 'model_checking'


def exact(shape, cards, m=None, abstract=None) -> bool:
    from .common import result_twice
    m = R.build(shape, cards, abstract=abstract) if m is None else m
    est = result_twice(FMEstimatedConfigurationsNumber(), m)
    if est != count_configurations(m) or est != count_configurations_rec(m.root):
        return False
    ref = R.ref_count(shape, cards)
    return est == ref


def replay_exact(shape, cards):
    shape = totuple(shape)
    cards = [tuple(c) for c in cards]
    m = R.build(shape, cards)
    est = FMEstimatedConfigurationsNumber().execute(m).get_result()
    ref = R.ref_count(shape, cards)
    return [] if est == ref else ['estimate %r != exact %r for shape %s cards %r' % (est, ref, R.shape_str(shape), cards)]


def batch_closed_form(max_n, lo, hi):
    """Oracle validation + E2: for every shape (slice lo:hi of the enumeration) and every concrete
    cardinality vector: closed form == AllSAT count of tree2z3, and real estimate == both."""
    import z3
    res = {'instances': 0, 'nontrivial': 0, 'violations': [], 'native_runs': 0}
    shapes = R.shapes(max_n)[lo:hi]
    for shape in shapes:
        n = R.n_features(shape)
        if n > 6:
            continue
        for cards in R.all_cards(shape):
            ctx = z3.Context()
            f, var = R.tree2z3(shape, cards, z3, ctx)
            exact_n = R.count_models(z3, ctx, f, var)
            ref = R.ref_count(shape, cards)
            res['instances'] += 1
            res['nontrivial'] += 1
            if ref != exact_n:
                raise RuntimeError('oracle validation failed: closed form %r != AllSAT %r on %s %r' % (ref, exact_n, shape, cards))
            m = R.build(shape, cards)
            est = FMEstimatedConfigurationsNumber().execute(m).get_result()
            res['native_runs'] += 1
            if est != exact_n:
                res['violations'].append({'label': 'estimate-exact', 'detail': 'estimate %r != exact %r, shape %s cards %r' % (est, exact_n, R.shape_str(shape), cards),
                                          'replay_func': 'replay_exact', 'replay_args': [shape, cards]})
                if len(res['violations']) >= 3:
                    return res
            res['sample'] = {'shape': R.shape_str(shape), 'cards': cards, 'exact': exact_n, 'estimate': est}
    return res


def replay_upper(shape, cards, trees):
    import z3
    shape = totuple(shape)
    cards = [tuple(c) for c in cards]
    trees = [totuple(t) for t in trees]
    n = R.n_features(shape)
    ctx = z3.Context()
    f, var = R.tree2z3(shape, cards, z3, ctx)
    env = {'F%d' % i: var[i] for i in range(n)}
    cf = [R.tree2z3_expr(t, env, z3, ctx) for t in trees]
    exact_n = R.count_models(z3, ctx, z3.And([f] + cf, ctx), var)
    m = R.build(shape, cards, ctcs=[R.ctc('c%d' % i, t) for i, t in enumerate(trees)])
    snap = R.snapshot(m)
    est = FMEstimatedConfigurationsNumber().execute(m).get_result()
    out = []
    if est < exact_n:
        out.append('estimate %r < exact %r with constraints %r, shape %s cards %r' % (est, exact_n, trees, R.shape_str(shape), cards))
    if R.snapshot(m) != snap:
        out.append('model modified by the operation')
    return out


def batch_upper(max_n, seed, count):
    """E2: with constraints the estimate is never smaller than the exact count (AllSAT on tree2z3 /\\ ctcs)."""
    rnd = random.Random(seed)
    res = {'instances': 0, 'nontrivial': 0, 'violations': [], 'native_runs': 0}
    shapes = [s for s in R.shapes(max_n) if 2 <= R.n_features(s) <= 6]
    for _ in range(count):
        shape = rnd.choice(shapes)
        n = R.n_features(shape)
        cards = rnd.choice(list(R.all_cards(shape)))
        names = ['F%d' % i for i in range(n)]
        pool = R.logical_trees(rnd.sample(names, min(3, n)), 1)
        trees = [rnd.choice(pool) for _ in range(rnd.randint(1, 2))]
        trees = [t for t in trees if not isinstance(t, str)] or [('IMPLIES', names[0], names[-1])]
        res['instances'] += 1
        res['nontrivial'] += 1
        res['native_runs'] += 1
        bad = replay_upper(shape, cards, trees)
        if bad:
            res['violations'].append({'label': 'estimate-upper-bound', 'detail': bad[0], 'replay_func': 'replay_upper',
                                      'replay_args': [shape, cards, trees]})
            if len(res['violations']) >= 3:
                break
        res['sample'] = {'shape': R.shape_str(shape), 'cards': cards, 'constraints': trees}
    return res


def conditions(tier, seed):
    N = 4 if tier == 'quick' else 7
    return cards_conditions('c13_exact', 'c13', 'exact', indexed_shapes(N), 30 if tier == 'quick' else 90,
                            'estimate == closed-form exact count', flags=True)


def batches(tier, seed):
    N = 4 if tier == 'quick' else 5
    total = len(R.shapes(N))
    step = max(1, total // 16 + 1)
    b = [('batch_closed_form', [N, lo, lo + step]) for lo in range(0, total, step)]
    per = 40 if tier == 'quick' else 300
    b += [('batch_upper', [N, seed * 100 + i, per]) for i in range(8)]
    return b


_orig_batches = batches


def batches(tier, seed):  # noqa: F811
    n = 3 if tier == 'quick' else 4
    total = len(R.shapes(n)) * (len(R.shapes(n)) - 1)
    step = total // 4 + 1
    b = _orig_batches(tier, seed) + [('batch_pairs', [n, lo, lo + step, seed + lo]) for lo in range(0, total, step)]
    if tier == 'quick':
        b += [('batch_larger', ['random', seed * 3 + i, 40, 6, 16, 0]) for i in range(2)]
        b += [('batch_larger', ['case', seed, 6, 0, 4, 0])]
        b += [('batch_larger', ['corpus', seed, 48, 0, 0, 150000, i, 2]) for i in range(2)]
    else:
        b += [('batch_larger', ['random', seed * 3 + i, 250, 6, 40, 0]) for i in range(8)]
        b += [('batch_larger', ['case', seed + i, 12, 0, 5, 0]) for i in range(2)]
        b += [('batch_larger', ['corpus', seed, 100000, 0, 0, 10 ** 9, i, 16]) for i in range(16)]
    return b


def info(tier):
    return {
        'assumptions': ['Boolean models built through the public constructors; 0 <= min <= max <= k, max >= 1 per relation',
                        'shapes enumerated exhaustively (enumeration); cardinalities symbolic (E1); configurations by z3 AllSAT (E2)',
                        'exact count oracle = closed form prod_rel sum_{j=min..max} e_j(children counts), validated against AllSAT of the reference semantics on every enumerated instance'],
        'coverage': {
            'functions_encoded': ['FMEstimatedConfigurationsNumber.execute/get_result/get_configurations_number', 'count_configurations', 'count_configurations_rec',
                                  'Relation.is_*', 'Feature.is_leaf/get_relations'],
            'bounds': {'shapes_E1': 'N<=%d' % (4 if tier == 'quick' else 7), 'shapes_E2': 'N<=%d' % (4 if tier == 'quick' else 5),
                       'constraints': '1-2 trees of depth<=1 over <=3 names'},
            'stubs': [],
        },
    }


def batch_pairs(max_n, lo, hi, seed):
    return pair_batch(__name__, 'exact', max_n, lo, hi, seed, 'two-models-in-sequence')


# -- larger inputs: random shapes beyond the exhaustive bound, shipped corpus --------------------------------
from .larger import replay_model  # noqa: E402,F401


def larger_check(shape, cards, m):
    return [] if exact(shape, cards, m) else ['estimate differs from the exact number of configurations of the tree (closed form)']


def batch_larger(kind, seed, count, lo_n, hi_n, max_bytes, part=0, parts=1):
    from . import larger
    return larger.batch_models(__name__, 'larger_check', 'estimate-larger', kind, seed, count, lo_n, hi_n, max_bytes, part, parts)
