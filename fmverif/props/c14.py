"""C14 - core features are exactly the always-selected features of the tree."""
from __future__ import annotations

import random

from flamapy.metamodels.fm_metamodel.operations import FMCoreFeatures
from flamapy.metamodels.fm_metamodel.operations.fm_core_features import get_core_features

from .. import refsem as R
from ..known import known
from .common import cards_conditions, indexed_shapes, totuple, pair_batch, replay_pair  # noqa: F401

ID = 'C14'
LEVEL = 'model_checking'


def _index(m):
    feats = [m.root]

    def walk(f):
        for r in f.relations:
            for c in r.children:
                feats.append(c)
                walk(c)
    walk(m.root)
    return feats


def exact(shape, cards, m=None, abstract=None) -> bool:
    m = R.build(shape, cards, abstract=abstract) if m is None else m
    feats = _index(m)
    from .common import result_twice
    res = result_twice(FMCoreFeatures(), m)
    res2 = get_core_features(m)
    forced = R.ref_forced(shape, cards)
    ids = [id(f) for f in res]
    if sorted(ids) != sorted(id(f) for f in res2):
        return False
    if len(set(ids)) != len(ids):
        return False                      # returned once
    if id(m.root) not in ids:
        return False                      # root always included
    want = [id(feats[i]) for i in range(len(feats)) if forced[i]]
    return sorted(ids) == sorted(want)


def replay_exact(shape, cards):
    shape = totuple(shape)
    cards = [tuple(c) for c in cards]
    m = R.build(shape, cards)
    res = [f.name for f in FMCoreFeatures().execute(m).get_result()]
    forced = R.ref_forced(shape, cards)
    want = ['F%d' % i for i in range(len(forced)) if forced[i]]
    return [] if sorted(res) == sorted(want) else ['core features %r != always-selected %r for shape %s cards %r' % (res, want, R.shape_str(shape), cards)]


def once_ctc(shape, cards, x, y, kind) -> bool:
    """E1: with one simple cross-tree constraint between features x and y (symbolic indices) the result
    lists no feature twice, contains the root, contains every feature the tree alone forces ... no:
    only what the property states - returned once, root included, model unchanged."""
    n = R.n_features(shape)
    pool = ['F%d' % i for i in range(n)]
    a, b = pool[x], pool[y]
    tree = [('REQUIRES', a, b), ('IMPLIES', a, b), ('EXCLUDES', a, b), ('IMPLIES', a, ('NOT', b)), ('OR', ('NOT', a), b)][kind]
    m = R.build(shape, cards, ctcs=[R.ctc('c0', tree)])
    res = FMCoreFeatures().execute(m).get_result()
    ids = [id(f) for f in res]
    if len(set(ids)) != len(ids):
        return False
    names = [f.name for f in res]
    for i in range(len(names)):
        for j in range(i + 1, len(names)):
            if names[i] == names[j]:
                return False
    return id(m.root) in ids


def replay_with_ctcs(shape, cards, trees, light=False, abstract=None):
    """E2: every returned feature is in every configuration of tree /\\ ctcs; returned once; root included;
    model unchanged. light: the z3 part is skipped."""
    import z3
    shape = totuple(shape)
    cards = [tuple(c) for c in cards]
    trees = [totuple(t) for t in trees]
    n = R.n_features(shape)
    ctx = z3.Context()
    f, var = R.tree2z3(shape, cards, z3, ctx)
    env = {'F%d' % i: var[i] for i in range(n)}
    cf = [R.tree2z3_expr(t, env, z3, ctx) for t in trees]
    m = R.build(shape, cards, ctcs=[R.ctc('c%d' % i, t) for i, t in enumerate(trees)], abstract=abstract)
    snap = R.snapshot(m)
    res = FMCoreFeatures().execute(m).get_result()
    out = []
    names = [x.name for x in res]
    if len(set(names)) != len(names):
        out.append('feature returned more than once: %r' % names)
    if 'F0' not in names:
        out.append('root not returned')
    for name in ([] if light else names):
        r = R.decide(z3, ctx, f, *cf, z3.Not(env[name], ctx))
        if r == 'sat':
            out.append('%s returned as core but a valid configuration omits it; shape %s cards %r ctcs %r' % (name, R.shape_str(shape), cards, trees))
    if not trees and not light:
        forced = R.ref_forced(shape, cards)
        for i in range(n):
            r = R.decide(z3, ctx, f, z3.Not(var[i], ctx))
            if (r == 'unsat') != forced[i]:
                raise RuntimeError('oracle validation failed: forced closed form disagrees with z3 at F%d %s %r' % (i, shape, cards))
            if (r == 'unsat') != (('F%d' % i) in names):
                out.append('F%d: in every configuration = %s but returned = %s; shape %s cards %r' % (i, r == 'unsat', ('F%d' % i) in names, R.shape_str(shape), cards))
    if R.snapshot(m) != snap:
        out.append('model modified')
    return out


def batch_e2(max_n, lo, hi, seed):
    rnd = random.Random(seed)
    res = {'instances': 0, 'nontrivial': 0, 'violations': [], 'native_runs': 0}
    for shape in R.shapes(max_n)[lo:hi]:
        n = R.n_features(shape)
        names = ['F%d' % i for i in range(n)]
        pool = [t for t in R.logical_trees(names[:3] if n >= 3 else names, 1) if not isinstance(t, str)]
        for cards in R.all_cards(shape):
            cases = [[]]
            if n >= 2:
                cases += [[rnd.choice(pool)] for _ in range(2)]
                # simple constraints between every ordered pair of features (a constraint-aware implementation
                # meets the tree traversal in every relative position); z3 decides a sample, the rest is 'once / root / pure'
                simple = [[(k, a, b)] for a in names for b in names if a != b for k in ('REQUIRES', 'IMPLIES')]
                simple += [[('EXCLUDES', a, b)] for a in names[1:] for b in names[1:] if a < b]
                two = [x + y for x in simple[:len(names) * 2] for y in simple if x != y]
                full = set(rnd.sample(range(len(simple)), min(3, len(simple))))
                cases += [(t, i not in full) for i, t in enumerate(simple)] + [(t, True) for t in rnd.sample(two, min(6, len(two)))] + [(t, False) for t in rnd.sample(two, min(2, len(two)))]
            for case in cases:
                trees, light = case if isinstance(case, tuple) else (case, False)
                res['instances'] += 1
                res['nontrivial'] += 1
                res['native_runs'] += 1
                # abstract markers are payload the operation must not look at: none / every other feature / all
                ab = [None, [i % 2 == 0 for i in range(n)], [True] * n, [i % 2 == 1 for i in range(n)]][res['instances'] % 4]
                bad = replay_with_ctcs(shape, cards, trees, light, ab)
                if bad:
                    res['violations'].append({'label': 'core-e2', 'detail': bad[0] + ' abstract=%r' % (ab,), 'replay_func': 'replay_with_ctcs', 'replay_args': [shape, cards, trees, light, ab]})
                    if len(res['violations']) >= 3:
                        return res
                res['sample'] = {'shape': R.shape_str(shape), 'cards': cards, 'constraints': trees}
    return res


def conditions(tier, seed):
    from ..runner import Cond
    from .common import cards_params
    N = 5 if tier == 'quick' else 7
    conds = cards_conditions('c14_exact', 'c14', 'exact', indexed_shapes(N), 30 if tier == 'quick' else 90,
                             'core features == forced set (closed form)', flags=True)
    M = 4 if tier == 'quick' else 5
    for si, shape in indexed_shapes(M, 3):
        n = R.n_features(shape)
        params, pre, cards = cards_params(shape)
        imp = 'from fmverif.props import c14 as P\nSHAPE_%d = %r\n' % (si, shape)
        dc = tuple(x for c in R.default_cards(shape) for x in c)
        full = tuple(x for (p, cs) in R.relations_of(shape) for x in (len(cs), len(cs)))
        conds.append(Cond(name='c14_once_%d' % si, imports=imp, params=params + ', x: int, y: int, kind: int',
                          pre=pre + ['0 <= x < %d' % n, '0 <= y < %d' % n, 'x != y', '0 <= kind < 5'],
                          body='P.once_ctc(SHAPE_%d, %s, x, y, kind)' % (si, cards), timeout=40 if tier == 'quick' else 120,
                          aspect='with one simple constraint between a symbolic pair of features: every feature returned once, root included',
                          sample={'shape': R.shape_str(shape), 'symbolic': 'all (min,max) pairs, the two constrained features, the constraint form (requires / implies / excludes / implies-not / or-not)'},
                          validate=[dc + (n - 1, 1, 0), full + (n - 1, n - 2, 1), full + (1, 2, 0), dc + (0, 1, 2)]))
    return conds


def batches(tier, seed):
    N = 4 if tier == 'quick' else 5
    total = len(R.shapes(N))
    step = max(1, total // 16 + 1)
    return [('batch_e2', [N, lo, lo + step, seed + lo]) for lo in range(0, total, step)]


_orig_batches = batches


def batches(tier, seed):  # noqa: F811
    n = 3 if tier == 'quick' else 4
    total = len(R.shapes(n)) * (len(R.shapes(n)) - 1)
    step = total // 4 + 1
    b = _orig_batches(tier, seed) + [('batch_pairs', [n, lo, lo + step, seed + lo]) for lo in range(0, total, step)]
    if tier == 'quick':
        b += [('batch_larger', ['random', seed * 3 + i, 40, 6, 16, 0]) for i in range(2)]
        b += [('batch_larger', ['case', seed, 6, 0, 4, 0])]
        b += [('batch_larger', ['corpus', seed, 48, 0, 0, 150000, i, 2]) for i in range(2)]
    else:
        b += [('batch_larger', ['random', seed * 3 + i, 250, 6, 40, 0]) for i in range(8)]
        b += [('batch_larger', ['case', seed + i, 12, 0, 5, 0]) for i in range(2)]
        b += [('batch_larger', ['corpus', seed, 100000, 0, 0, 10 ** 9, i, 16]) for i in range(16)]
    return b


def info(tier):
    return {
        'assumptions': ['0 <= min <= max <= k, max >= 1 per relation (every feature is selectable, no dead features in the tree)',
                        'always-selected oracle: all relations on the root path have min == k; validated against z3 on every enumerated constraint-free instance',
                        'shapes enumerated (enumeration); cardinalities symbolic (E1); configurations by z3 (E2)'],
        'coverage': {'functions_encoded': ['FMCoreFeatures.execute/get_result', 'get_core_features', 'Relation.is_mandatory'],
                     'bounds': {'shapes_E1': 'N<=%d' % (5 if tier == 'quick' else 7), 'shapes_E2': 'N<=%d' % (4 if tier == 'quick' else 5), 'constraints': 'one tree of depth<=1'},
                     'stubs': []},
    }


def batch_pairs(max_n, lo, hi, seed):
    return pair_batch(__name__, 'exact', max_n, lo, hi, seed, 'two-models-in-sequence')


# -- larger inputs: random shapes beyond the exhaustive bound, shipped corpus --------------------------------
from .larger import replay_model  # noqa: E402,F401


def larger_check(shape, cards, m):
    return [] if exact(shape, cards, m) else ['core features differ from the always-selected features of the tree (closed form), or a feature is returned twice']


def batch_larger(kind, seed, count, lo_n, hi_n, max_bytes, part=0, parts=1):
    from . import larger
    return larger.batch_models(__name__, 'larger_check', 'core-larger', kind, seed, count, lo_n, hi_n, max_bytes, part, parts)
