"""C15 - atomic sets partition the features into always-co-selected groups."""
from __future__ import annotations

import random

from flamapy.metamodels.fm_metamodel.operations import FMAtomicSets
from flamapy.metamodels.fm_metamodel.operations.fm_atomic_sets import get_atomic_sets

from .. import refsem as R
from .common import cards_conditions, indexed_shapes, totuple, pair_batch, replay_pair  # noqa: F401
from .c14 import _index

ID = 'C15'
LEVEL = 'model_checking'


def _coselected(shape, cards, i, j, par=None, link=None) -> bool:
    """Closed form: i and j are selected together in every configuration iff every relation on the
    tree path between them forces all of its children (min == k)."""
    par = R.parents_of(shape) if par is None else par
    link = R.ref_links(shape, cards) if link is None else link

    def chain(x):
        out = [x]
        while par[x] is not None:
            x = par[x]
            out.append(x)
        return out
    ci, cj = chain(i), chain(j)
    common = [x for x in ci if x in cj][0]
    for x in ci[:ci.index(common)] + cj[:cj.index(common)]:
        if not link[x]:
            return False
    return True


def sound(shape, cards, m=None, abstract=None) -> bool:
    m = R.build(shape, cards, abstract=abstract) if m is None else m
    feats = _index(m)
    idx = {id(f): i for i, f in enumerate(feats)}
    from .common import result_twice
    sets = result_twice(FMAtomicSets(), m)
    sets2 = get_atomic_sets(m)
    members = []
    for s in sets:
        if len(s) == 0:
            return False
        members.append(sorted(idx[id(f)] for f in s))
    if sorted(members) != sorted(sorted(idx[id(f)] for f in s) for s in sets2):
        return False
    flat = [i for s in members for i in s]
    if sorted(flat) != list(range(len(feats))):
        return False                                     # partition: every feature exactly once
    rels = R.relations_of(shape)
    setof = {}
    for si, s in enumerate(members):
        for i in s:
            setof[i] = si
    par_, link_ = R.parents_of(shape), R.ref_links(shape, cards)
    for s in members:
        for a in s:
            for b in s:
                if a < b and not _coselected(shape, cards, a, b, par_, link_):
                    return False                         # same set => always co-selected
    for ri, (p, cs) in enumerate(rels):
        if len(cs) == 1 and cards[ri][0] == 1 and cards[ri][1] == 1:
            if setof[cs[0]] != setof[p]:
                return False                             # mandatory child shares the set of its parent
    return True


def replay_e2(shape, cards, trees):
    import z3
    shape = totuple(shape)
    cards = [tuple(c) for c in cards]
    trees = [totuple(t) for t in trees]
    n = R.n_features(shape)
    ctx = z3.Context()
    f, var = R.tree2z3(shape, cards, z3, ctx)
    env = {'F%d' % i: var[i] for i in range(n)}
    cf = [R.tree2z3_expr(t, env, z3, ctx) for t in trees]
    m = R.build(shape, cards, ctcs=[R.ctc('c%d' % i, t) for i, t in enumerate(trees)])
    snap = R.snapshot(m)
    sets = FMAtomicSets().execute(m).get_result()
    out = []
    names = sorted(x.name for s in sets for x in s)
    if names != sorted('F%d' % i for i in range(n)):
        out.append('not a partition of the features: %r' % [[x.name for x in s] for s in sets])
    if any(len(s) == 0 for s in sets):
        out.append('empty atomic set')
    for s in sets:
        ns = sorted(x.name for x in s)
        for a in ns:
            for b in ns:
                if a < b:
                    r = R.decide(z3, ctx, f, *cf, z3.Xor(env[a], env[b], ctx))
                    if r == 'sat':
                        out.append('%s and %s share an atomic set but a valid configuration separates them; shape %s cards %r ctcs %r' % (a, b, R.shape_str(shape), cards, trees))
    rels = R.relations_of(shape)
    for ri, (p, cs) in enumerate(rels):
        if len(cs) == 1 and cards[ri] == (1, 1):
            if not any(('F%d' % p) in [x.name for x in s] and ('F%d' % cs[0]) in [x.name for x in s] for s in sets):
                out.append('mandatory child F%d is not in the set of its parent F%d' % (cs[0], p))
    if not trees:
        for a in range(n):
            for b in range(a + 1, n):
                r = R.decide(z3, ctx, f, z3.Xor(var[a], var[b], ctx))
                if (r == 'unsat') != _coselected(shape, cards, a, b):
                    raise RuntimeError('oracle validation failed: co-selection closed form disagrees with z3 at (%d,%d) %s %r' % (a, b, shape, cards))
    if R.snapshot(m) != snap:
        out.append('model modified')
    return out


def batch_e2(max_n, lo, hi, seed):
    rnd = random.Random(seed)
    res = {'instances': 0, 'nontrivial': 0, 'violations': [], 'native_runs': 0}
    for shape in R.shapes(max_n)[lo:hi]:
        n = R.n_features(shape)
        names = ['F%d' % i for i in range(n)]
        pool = [t for t in R.logical_trees(names[:3] if n >= 3 else names, 1) if not isinstance(t, str)]
        for cards in R.all_cards(shape):
            cases = [[]]
            if n >= 2:
                cases += [[rnd.choice(pool)]]
            for trees in cases:
                res['instances'] += 1
                res['nontrivial'] += 1
                res['native_runs'] += 1
                bad = replay_e2(shape, cards, trees)
                if bad:
                    res['violations'].append({'label': 'atomic-e2', 'detail': bad[0], 'replay_func': 'replay_e2', 'replay_args': [shape, cards, trees]})
                    if len(res['violations']) >= 3:
                        return res
                res['sample'] = {'shape': R.shape_str(shape), 'cards': cards, 'constraints': trees}
    return res


def conditions(tier, seed):
    N = 5 if tier == 'quick' else 7
    return cards_conditions('c15_sound', 'c15', 'sound', indexed_shapes(N), 30 if tier == 'quick' else 90,
                            'atomic sets: partition, co-selection (closed form), mandatory chains', flags=True)


def batches(tier, seed):
    N = 4 if tier == 'quick' else 5
    total = len(R.shapes(N))
    step = max(1, total // 16 + 1)
    return [('batch_e2', [N, lo, lo + step, seed + lo]) for lo in range(0, total, step)]


_orig_batches = batches


def batches(tier, seed):  # noqa: F811
    n = 3 if tier == 'quick' else 4
    total = len(R.shapes(n)) * (len(R.shapes(n)) - 1)
    step = total // 4 + 1
    b = _orig_batches(tier, seed) + [('batch_pairs', [n, lo, lo + step, seed + lo]) for lo in range(0, total, step)]
    if tier == 'quick':
        b += [('batch_larger', ['random', seed * 3 + i, 40, 6, 16, 0]) for i in range(2)]
        b += [('batch_larger', ['case', seed, 6, 0, 4, 0])]
        b += [('batch_larger', ['corpus', seed, 48, 0, 0, 150000, i, 2]) for i in range(2)]
    else:
        b += [('batch_larger', ['random', seed * 3 + i, 250, 6, 40, 0]) for i in range(8)]
        b += [('batch_larger', ['case', seed + i, 12, 0, 5, 0]) for i in range(2)]
        b += [('batch_larger', ['corpus', seed, 100000, 0, 0, 10 ** 9, i, 16]) for i in range(16)]
    return b


def info(tier):
    return {
        'assumptions': ['0 <= min <= max <= k, max >= 1 per relation',
                        'co-selection oracle: every relation on the tree path between two features has min == k; validated against z3 on every enumerated constraint-free instance',
                        'shapes enumerated (enumeration); cardinalities symbolic (E1); configurations by z3 (E2)'],
        'coverage': {'functions_encoded': ['FMAtomicSets.execute/get_result', 'get_atomic_sets', 'compute_atomic_sets', 'Feature.is_mandatory', 'Feature.get_children'],
                     'bounds': {'shapes_E1': 'N<=%d' % (5 if tier == 'quick' else 7), 'shapes_E2': 'N<=%d' % (4 if tier == 'quick' else 5), 'constraints': 'one tree of depth<=1'},
                     'stubs': []},
    }


def batch_pairs(max_n, lo, hi, seed):
    return pair_batch(__name__, 'sound', max_n, lo, hi, seed, 'two-models-in-sequence')


# -- larger inputs: random shapes beyond the exhaustive bound, shipped corpus --------------------------------
from .larger import replay_model  # noqa: E402,F401


def larger_check(shape, cards, m):
    return [] if sound(shape, cards, m) else ['atomic sets are not a partition into always-co-selected groups containing the mandatory chains (closed form)']


def batch_larger(kind, seed, count, lo_n, hi_n, max_bytes, part=0, parts=1):
    from . import larger
    return larger.batch_models(__name__, 'larger_check', 'atomic-sets-larger', kind, seed, count, lo_n, hi_n, max_bytes, part, parts)
