"""C16 - tree-shape operations match their definitions on every model."""
from __future__ import annotations

from flamapy.metamodels.fm_metamodel.models import Feature, Relation, FeatureModel
from flamapy.metamodels.fm_metamodel.operations import (
    FMCountLeafs, FMLeafFeatures, FMMaxDepthTree, FMAverageBranchingFactor, FMFeatureAncestors, FMVariationPoints)

from .. import refsem as R
from ..runner import Cond
from .common import cards_conditions, indexed_shapes, totuple, pair_batch, replay_pair  # noqa: F401
from .c14 import _index

ID = 'C16'
LEVEL = 'model_checking'


def check_model(m, par, chil, nonmand_children) -> bool:
    """par/chil: reference parent / children indices (preorder); nonmand_children[i] = children of the
    non-mandatory relations of feature i (reference)."""
    feats = _index(m)
    n = len(feats)
    leaves = [i for i in range(n) if not chil[i]]
    from .common import result_twice
    if result_twice(FMCountLeafs(), m) != len(leaves):
        return False
    got = result_twice(FMLeafFeatures(), m)
    if sorted(id(f) for f in got) != sorted(id(feats[i]) for i in leaves):
        return False

    def anc(i):
        out = []
        while par[i] is not None:
            i = par[i]
            out.append(i)
        return out
    depth = max(len(anc(i)) for i in range(n))
    if result_twice(FMMaxDepthTree(), m) != depth:
        return False
    for i in range(n):
        op = FMFeatureAncestors()
        op.set_feature(feats[i])
        res = result_twice(op, m)
        if [id(f) for f in res] != [id(feats[a]) for a in anc(i)]:
            return False
    nonleaf = [i for i in range(n) if chil[i]]
    bf = result_twice(FMAverageBranchingFactor(), m)
    if nonleaf:
        if bf != round(sum(len(chil[i]) for i in nonleaf) / len(nonleaf), 2):
            return False
    else:
        if not isinstance(bf, (int, float)):
            return False
    vps = result_twice(FMVariationPoints(), m)
    want = {i: nonmand_children[i] for i in range(n) if nonmand_children[i]}
    if sorted(id(k) for k in vps.keys()) != sorted(id(feats[i]) for i in want):
        return False
    for k, v in vps.items():
        i = [j for j in range(n) if feats[j] is k][0]
        if sorted(id(f) for f in v) != sorted(id(feats[c]) for c in want[i]):
            return False
    return True


def ops(shape, cards, m=None, abstract=None) -> bool:
    m = R.build(shape, cards, abstract=abstract) if m is None else m
    rels = R.relations_of(shape)
    n = R.n_features(shape)
    nm = [[] for _ in range(n)]
    for ri, (p, cs) in enumerate(rels):
        mandatory = (len(cs) == 1 and cards[ri][0] == 1 and cards[ri][1] == 1)
        if not mandatory:
            nm[p].extend(cs)
    return check_model(m, R.parents_of(shape), R.children_of(shape), nm)


def ops_width(shape, widths, mn, mx) -> bool:
    """Every leaf of `shape` that is the only child... : each relation whose children are all leaves gets
    its children from a symbolic-length list (widths[j]); the first such relation gets symbolic (mn,mx)."""
    rels = R.relations_of(shape)
    chil = R.children_of(shape)
    n0 = R.n_features(shape)
    # rebuild a concrete description with the widths pinned by iteration
    leafrels = [ri for ri, (p, cs) in enumerate(rels) if all(not chil[c] for c in cs)]
    feats = {0: Feature('F0')}
    par = {0: None}
    ch = {0: []}
    nm = {0: []}
    counter = [0]
    dc = R.default_cards(shape)
    wi = [0]

    def new(p):
        counter[0] += 1
        i = counter[0]
        feats[i] = Feature('F%d' % i)
        par[i] = p
        ch[i] = []
        nm[i] = []
        ch[p].append(i)
        return i

    relcounter = [0]

    def walk(sh, idx):
        for rel in sh:
            ri = relcounter[0]
            relcounter[0] += 1
            if ri in leafrels:
                w = widths[leafrels.index(ri)]
                kids = [new(idx) for _ in w]
                k = len(kids)
                if leafrels.index(ri) == 0:
                    a, b = mn, mx
                else:
                    a, b = (1, 1)
                feats[idx].add_relation(Relation(feats[idx], [feats[c] for c in kids], a, b))
                if not (k == 1 and a == 1 and b == 1):
                    nm[idx].extend(kids)
            else:
                kids = []
                for child in rel:
                    c = new(idx)
                    kids.append((c, child))
                a, b = dc[ri]
                feats[idx].add_relation(Relation(feats[idx], [feats[c] for c, _ in kids], a, b))
                if not (len(kids) == 1 and a == 1 and b == 1):
                    nm[idx].extend(c for c, _ in kids)
                for c, child in kids:
                    walk(child, c)
    # NOTE: preorder numbering must match _index(): children are numbered when created, before descending;
    # _index numbers a child and immediately descends.  Use a renumbering by walking the built model.
    walk(shape, 0)
    m = FeatureModel(feats[0], [])
    order = _index(m)
    pos = {id(f): i for i, f in enumerate(order)}
    old = {id(feats[i]): i for i in feats}
    n = len(order)
    par2 = [None] * n
    ch2 = [[] for _ in range(n)]
    nm2 = [[] for _ in range(n)]
    for f in order:
        o = old[id(f)]
        i = pos[id(f)]
        par2[i] = pos[id(feats[par[o]])] if par[o] is not None else None
        ch2[i] = [pos[id(feats[c])] for c in ch[o]]
        nm2[i] = [pos[id(feats[c])] for c in nm[o]]
    return check_model(m, par2, ch2, nm2)


def replay_ops(shape, cards):
    shape = totuple(shape)
    cards = [tuple(c) for c in cards]
    try:
        ok = ops(shape, cards)
    except Exception as exc:
        return ['%s: %s on shape %s cards %r' % (type(exc).__name__, exc, R.shape_str(shape), cards)]
    return [] if ok else ['an operation disagrees with its definition on shape %s cards %r' % (R.shape_str(shape), cards)]


def batch_native(max_n, lo, hi):
    """Native validation sweep incl. the root-only model and all cardinalities."""
    res = {'instances': 0, 'nontrivial': 0, 'violations': [], 'native_runs': 0}
    for shape in R.shapes(max_n)[lo:hi]:
        cl = list(R.all_cards(shape)) if R.n_features(shape) <= 5 else [R.default_cards(shape)]
        for cards in cl:
            res['instances'] += 1
            res['native_runs'] += 1
            res['nontrivial'] += 1
            bad = replay_ops(shape, cards)
            if bad:
                res['violations'].append({'label': 'ops-native', 'detail': bad[0], 'replay_func': 'replay_ops', 'replay_args': [shape, cards]})
                if len(res['violations']) >= 3:
                    return res
            res['sample'] = {'shape': R.shape_str(shape), 'cards': cards}
    return res


def conditions(tier, seed):
    N = 5 if tier == 'quick' else 7
    conds = cards_conditions('c16_ops', 'c16', 'ops', indexed_shapes(N), 30 if tier == 'quick' else 90,
                             'six tree operations == reference tree facts (cards symbolic)', flags=True)
    # symbolic widths of the leaf groups
    W = 4 if tier == 'quick' else 6
    for si, shape in indexed_shapes(4 if tier == 'quick' else 5):
        rels = R.relations_of(shape)
        chil = R.children_of(shape)
        leafrels = [ri for ri, (p, cs) in enumerate(rels) if all(not chil[c] for c in cs)]
        if not leafrels or len(leafrels) > 2:
            continue
        params = ', '.join('w%d: List[int]' % j for j in range(len(leafrels))) + ', mn: int, mx: int'
        pre = ['1 <= len(w%d) <= %d' % (j, W) for j in range(len(leafrels))] + ['0 <= mn <= mx <= len(w0)', 'mx >= 1']
        imp = 'from fmverif.props import c16 as P\nSHAPE_%d = %r\n' % (si, shape)
        conds.append(Cond(
            name='c16_w_%d' % si, imports=imp, params=params, pre=pre,
            body='P.ops_width(SHAPE_%d, [%s], mn, mx)' % (si, ', '.join('w%d' % j for j in range(len(leafrels)))),
            timeout=40 if tier == 'quick' else 120, aspect='leaf-group widths symbolic',
            sample={'shape': R.shape_str(shape), 'symbolic': 'width of %d leaf groups (1..%d), one (min,max)' % (len(leafrels), W)},
            validate=[tuple([[0]] * len(leafrels) + [1, 1]), tuple([[0, 0, 0]] * len(leafrels) + [0, 2])]))
    return conds


def batches(tier, seed):
    N = 5 if tier == 'quick' else 7
    total = len(R.shapes(N))
    step = max(1, total // 16 + 1)
    return [('batch_native', [N, lo, lo + step]) for lo in range(0, total, step)]


_orig_batches = batches


def batches(tier, seed):  # noqa: F811
    n = 3 if tier == 'quick' else 4
    total = len(R.shapes(n)) * (len(R.shapes(n)) - 1)
    step = total // 4 + 1
    b = _orig_batches(tier, seed) + [('batch_pairs', [n, lo, lo + step, seed + lo]) for lo in range(0, total, step)]
    b.append(('batch_tall', []))
    b.append(('batch_wide', []))
    if tier == 'quick':
        b += [('batch_larger', ['random', seed * 3 + i, 40, 6, 16, 0]) for i in range(2)]
        b += [('batch_larger', ['case', seed, 6, 0, 4, 0])]
        b += [('batch_larger', ['corpus', seed, 48, 0, 0, 150000, i, 2]) for i in range(2)]
    else:
        b += [('batch_larger', ['random', seed * 3 + i, 250, 6, 40, 0]) for i in range(8)]
        b += [('batch_larger', ['case', seed + i, 12, 0, 5, 0]) for i in range(2)]
        b += [('batch_larger', ['corpus', seed, 100000, 0, 0, 10 ** 9, i, 16]) for i in range(16)]
    return b


def info(tier):
    return {
        'assumptions': ['five of the six operations depend on the shape only; shapes are enumerated, which is enumeration, not a solver verdict',
                        'symbolic: all (min,max) (variation points), widths of leaf groups 1..W',
                        'branching factor compared after the widths are pinned by the path; root-only model must return a number',
                        'the shipped 20000-feature corpus is not part of the solver claim'],
        'coverage': {'functions_encoded': ['count_leaf_features', 'get_leaf_features', 'max_depth_tree', 'average_branching_factor', 'get_feature_ancestors', 'variation_points', 'FM*.execute/get_result'],
                     'bounds': {'shapes_E1': 'N<=%d' % (5 if tier == 'quick' else 7), 'widths': '<=%d' % (4 if tier == 'quick' else 6),
                                'native_sweep': 'N<=%d' % (5 if tier == 'quick' else 7)},
                     'stubs': []},
    }


def batch_pairs(max_n, lo, hi, seed):
    return pair_batch(__name__, 'ops', max_n, lo, hi, seed, 'two-models-in-sequence')


# -- larger inputs: random shapes beyond the exhaustive bound, shipped corpus --------------------------------
from .larger import replay_model  # noqa: E402,F401


def larger_check(shape, cards, m):
    return [] if ops(shape, cards, m) else ['a tree-shape operation differs from its definition on the tree']


def batch_larger(kind, seed, count, lo_n, hi_n, max_bytes, part=0, parts=1):
    from . import larger
    return larger.batch_models(__name__, 'larger_check', 'tree-ops-larger', kind, seed, count, lo_n, hi_n, max_bytes, part, parts)


# -- tall models: "returns a value, without raising, on every well-formed model" ------------------------------

def replay_tall(depth, siblings):
    """a spine of `depth` mandatory features (optionally each with an optional leaf sibling), built iteratively;
    the six operations run under the interpreter's default recursion limit and must equal the arithmetic facts."""
    import sys
    from flamapy.metamodels.fm_metamodel.models import Feature, Relation, FeatureModel
    root = Feature('R')
    cur = root
    for i in range(depth):
        c = Feature('S%d' % i)
        cur.add_relation(Relation(cur, [c], 1, 1))
        if siblings:
            cur.add_relation(Relation(cur, [Feature('O%d' % i)], 0, 1))
        cur = c
    m = FeatureModel(root, [])
    want_leaves = 1 + (depth if siblings else 0) if depth else 1
    nonleaf = depth
    children_total = depth * (2 if siblings else 1)
    old = sys.getrecursionlimit()
    sys.setrecursionlimit(1000)
    out = []
    try:
        def run(label, fn):
            try:
                return fn()
            except RecursionError:
                out.append('%s raises RecursionError on a well-formed model of depth %d' % (label, depth))
            except Exception as exc:
                out.append('%s raises %s: %s on a model of depth %d' % (label, type(exc).__name__, exc, depth))
            return None
        r = run('FMCountLeafs', lambda: FMCountLeafs().execute(m).get_result())
        if r is not None and r != want_leaves:
            out.append('leaf count %r != %d' % (r, want_leaves))
        r = run('FMLeafFeatures', lambda: FMLeafFeatures().execute(m).get_result())
        if r is not None and len(r) != want_leaves:
            out.append('leaf listing has %d entries, expected %d' % (len(r), want_leaves))
        r = run('FMMaxDepthTree', lambda: FMMaxDepthTree().execute(m).get_result())
        if r is not None and r != depth:
            out.append('max depth %r != %d' % (r, depth))
        r = run('FMAverageBranchingFactor', lambda: FMAverageBranchingFactor().execute(m).get_result())
        if r is not None and nonleaf and r != round(children_total / nonleaf, 2):
            out.append('branching factor %r != %r' % (r, round(children_total / nonleaf, 2)))

        def anc():
            op = FMFeatureAncestors()
            op.set_feature(cur)
            return op.execute(m).get_result()
        r = run('FMFeatureAncestors', anc)
        if r is not None and (len(r) != depth or (depth and r[-1] is not root)):
            out.append('ancestors of the deepest feature: %d entries, expected %d ending at the root' % (len(r), depth))
        r = run('FMVariationPoints', lambda: FMVariationPoints().execute(m).get_result())
        if r is not None and len(r) != (depth if siblings else 0):
            out.append('variation points: %d features, expected %d' % (len(r), depth if siblings else 0))
    finally:
        sys.setrecursionlimit(old)
    return out


def batch_tall():
    res = {'instances': 0, 'nontrivial': 0, 'violations': [], 'native_runs': 0}
    for depth in (0, 1, 300, 700, 990, 1500, 3000):
        for siblings in (False, True):
            res['instances'] += 1
            res['native_runs'] += 6
            res['nontrivial'] += 1
            bad = replay_tall(depth, siblings)
            if bad:
                res['violations'].append({'label': 'tall-model', 'detail': bad[0], 'replay_func': 'replay_tall', 'replay_args': [depth, siblings]})
    res['sample'] = {'depths': [0, 1, 300, 700, 990, 1500, 3000], 'recursion_limit': 1000}
    return res


# -- wide models: many children per feature (ratios of two and three digits) ----------------------------------------

def replay_wide(total_children, nonleaf):
    """`nonleaf` features with children (the root and nonleaf-1 of its children), `total_children` children in all,
    relations of mixed kinds; all six operations against the definitions."""
    feats = [Feature('R')]
    par, chil, nm = [None], [[]], [[]]

    def new(p, name):
        f = Feature(name)
        feats.append(f)
        par.append(p)
        chil.append([])
        nm.append([])
        chil[p].append(len(feats) - 1)
        return len(feats) - 1
    inner = nonleaf - 1
    per = (total_children - inner) // nonleaf if nonleaf else 0
    rest = total_children - inner - per * nonleaf
    plan = [per + rest] + [per] * inner          # leaves under the root, then under each inner feature
    owners = [0]
    kids = [new(0, 'I%d' % i) for i in range(inner)]
    if kids:
        feats[0].add_relation(Relation(feats[0], [feats[k] for k in kids], 1, len(kids)) if len(kids) > 1 else Relation(feats[0], [feats[kids[0]]], 1, 1))
        if len(kids) > 1:
            nm[0].extend(kids)
    owners += kids
    for oi, owner in enumerate(owners):
        leaves = [new(owner, 'L%d_%d' % (oi, j)) for j in range(plan[oi])]
        # split the leaves into an optional single, and groups of up to 7
        j = 0
        while j < len(leaves):
            w = 1 if (j == 0 and len(leaves) > 1) else min(7, len(leaves) - j)
            grp = leaves[j:j + w]
            if w == 1:
                feats[owner].add_relation(Relation(feats[owner], [feats[grp[0]]], 0, 1))
            else:
                feats[owner].add_relation(Relation(feats[owner], [feats[g] for g in grp], 1, 1))
            nm[owner].extend(grp)
            j += w
    m = FeatureModel(feats[0], [])
    # check_model walks the model in preorder; describe the same order
    order = []

    def walk(i):
        order.append(i)
        for r in feats[i].relations:
            for c in r.children:
                walk([k for k in chil[i] if feats[k] is c][0])
    walk(0)
    pos = {old: new_ for new_, old in enumerate(order)}
    par2 = [None if par[o] is None else pos[par[o]] for o in order]
    chil2 = [[pos[c] for r in feats[o].relations for c in [k for ch in r.children for k in chil[o] if feats[k] is ch]] for o in order]
    nm2 = [[pos[c] for c in nm[o]] for o in order]
    try:
        ok = check_model(m, par2, chil2, nm2)
    except Exception as exc:
        return ['an operation raises %s: %s on a model with %d children under %d features' % (type(exc).__name__, exc, total_children, nonleaf)]
    want = round(total_children / nonleaf, 2)
    got = FMAverageBranchingFactor().execute(m).get_result()
    if got != want:
        return ['average branching factor %r != %r (%d children / %d non-leaf features)' % (got, want, total_children, nonleaf)]
    return [] if ok else ['a tree-shape operation differs from its definition on a wide model (%d children under %d features)' % (total_children, nonleaf)]


def batch_wide():
    res = {'instances': 0, 'nontrivial': 0, 'violations': [], 'native_runs': 0}
    for total, k in [(31, 3), (41, 4), (1234, 10), (21, 2), (12, 1), (100, 7), (1000, 3), (64, 6), (999, 8), (10, 3), (29, 3), (131, 13)]:
        res['instances'] += 1
        res['native_runs'] += 6
        res['nontrivial'] += 1
        bad = replay_wide(total, k)
        if bad:
            res['violations'].append({'label': 'wide-model', 'detail': bad[0], 'replay_func': 'replay_wide', 'replay_args': [total, k]})
    res['sample'] = {'children/non-leaf': '31/3, 41/4, 1234/10, ...'}
    return res
