"""C17 - metrics report is total, self-consistent and agrees with the operations."""
from __future__ import annotations

import random
import statistics

from flamapy.metamodels.fm_metamodel.operations import (
    FMMetrics, FMAverageBranchingFactor, FMLeafFeatures, FMMaxDepthTree, FMCountLeafs)

from .. import refsem as R
from ..known import known
from ..runner import Cond
from .common import cards_params, indexed_shapes, totuple
from . import c18

ID = 'C17'
LEVEL = 'model_checking'

CTC_SETS = [
    [],
    [('IMPLIES', 'F0', 'F1'), ('EXCLUDES', 'F1', 'F0')],
    [('OR', ('NOT', 'F1'), 'F0'), ('AND', 'F0', ('NOT', 'F1'))],
    [('NOT', ('AND', 'F0', ('NOT', 'F1'))), ('AND', ('IMPLIES', 'F0', 'F1'), ('EXCLUDES', 'F1', 'F0'))],
    [('REQUIRES', 'F1', 'F0'), ('OR', ('NOT', 'F0'), ('NOT', 'F1')), ('OR', 'F0', 'F1')],
    [('IMPLIES', 'F0', 'F1'), ('IMPLIES', 'F0', 'F1'), ('EXCLUDES', 'F1', 'F0'), ('OR', 'F0', 'F1'), ('EXCLUDES', 'F1', 'F0'), ('IMPLIES', 'F0', 'F1')],      # the same constraint stated several times: each one counts
]

# metric name -> (denominator listing name | None, precision)
DENOM = {
    'Abstract features': 'Features', 'Concrete features': 'Features', 'Leaf features': 'Features',
    'Compound features': 'Features', 'Concrete compound features': 'Concrete features',
    'Concrete leaf features': 'Concrete features', 'Abstract compound features': 'Abstract features',
    'Abstract leaf features': 'Abstract features', 'Root feature': 'Features', 'Top features': 'Features',
    'Solitary features': 'Features', 'Grouped features': 'Features', 'Mandatory features': 'Solitary features',
    'Optional features': 'Solitary features', 'Feature groups': 'Tree relationships',
    'Alternative groups': 'Feature groups', 'Or groups': 'Feature groups', 'Mutex groups': 'Feature groups',
    'Cardinality groups': 'Feature groups', 'Simple constraints': 'Cross-tree constraints',
    'Requires constraints': 'Simple constraints', 'Excludes constraints': 'Simple constraints',
    'Complex constraints': 'Cross-tree constraints', 'Pseudo-complex constraints': 'Complex constraints',
    'Strict-complex constraints': 'Complex constraints', 'Features in constraints': 'Features',
}
METHODS = ['features', 'abstract_features', 'concrete_features', 'leaf_features', 'compound_features',
           'concrete_compound_features', 'concrete_leaf_features', 'abstract_compound_features', 'abstract_leaf_features',
           'tree_relationships', 'root_feature', 'top_features', 'solitary_features', 'grouped_features',
           'mandatory_features', 'optional_features', 'feature_groups', 'alternative_groups', 'or_groups', 'mutex_groups',
           'cardinality_groups', 'branching_factor', 'min_children_per_feature', 'max_children_per_feature',
           'avg_children_per_feature', 'depth_tree', 'max_depth_tree', 'mean_depth_tree', 'median_depth_tree',
           'cross_tree_constraints', 'simple_constraints', 'requires_constraints', 'excludes_constraints',
           'complex_constraints', 'pseudo_complex_constraints', 'strict_complex_constraints',
           'min_constraints_per_feature', 'max_constraints_per_feature', 'avg_constraints_per_feature',
           'extra_constraint_representativeness']
METHOD_TO_NAME = {'features': 'Features', 'leaf_features': 'Leaf features', 'branching_factor': 'Branching factor',
                  'max_depth_tree': 'Max depth of tree', 'solitary_features': 'Solitary features',
                  'requires_constraints': 'Requires constraints', 'tree_relationships': 'Tree relationships',
                  'mandatory_features': 'Mandatory features'}


def _ev(t, env):
    if not isinstance(t, tuple):
        return env[t]
    op = t[0]
    a = _ev(t[1], env)
    if op == 'NOT':
        return not a
    b = _ev(t[2], env)
    return {'AND': a and b, 'OR': a or b, 'XOR': a != b, 'IMPLIES': (not a) or b, 'REQUIRES': (not a) or b,
            'EQUIVALENCE': a == b, 'EXCLUDES': not (a and b)}[op]


def _sem_simple(t, requires) -> bool:
    """the logical constraint is equivalent to 'l implies r' (requires) / 'not both l and r' (excludes) for some ordered
    pair of features occurring in it (l = r allowed: 'B => !B' is the degenerate excludes) - complete truth table over its names."""
    import itertools
    nm = c18.names_of(t)
    nm = sorted(set(nm))
    if len(nm) < 1 or len(nm) > 6:
        return False
    rows = [dict(zip(nm, bits)) for bits in itertools.product([False, True], repeat=len(nm))]
    vals = [_ev(t, env) for env in rows]
    for l in nm:
        for r in nm:
            if all(v == (((not env[l]) or env[r]) if requires else (not (env[l] and env[r]))) for v, env in zip(vals, rows)):
                return True
    return False


def reference(shape, cards, abstract, trees, names=None) -> dict:
    """name -> expected value; listings are sorted lists of feature names or counts for textual listings."""
    n = R.n_features(shape)
    rels = R.relations_of(shape)
    par = R.parents_of(shape)
    chil = R.children_of(shape)
    rbp = R.rels_by_parent(shape)
    names = ['F%d' % i for i in range(n)] if names is None else names
    cls = [R.rel_class(cards[ri][0], cards[ri][1], len(rels[ri][1])) for ri in range(len(rels))]
    relof = {}
    for ri, (p, cs) in enumerate(rels):
        for c in cs:
            relof[c] = ri
    ref = {}
    allf = list(range(n))
    abst = [i for i in allf if abstract[i]]
    conc = [i for i in allf if not abstract[i]]
    leaf = [i for i in allf if not chil[i]]
    comp = [i for i in allf if chil[i]]
    L = lambda idx: sorted(names[i] for i in idx)
    ref['Features'] = L(allf)
    ref['Abstract features'] = L(abst)
    ref['Concrete features'] = L(conc)
    ref['Leaf features'] = L(leaf)
    ref['Compound features'] = L(comp)
    ref['Concrete compound features'] = L([i for i in conc if chil[i]])
    ref['Concrete leaf features'] = L([i for i in conc if not chil[i]])
    ref['Abstract compound features'] = L([i for i in abst if chil[i]])
    ref['Abstract leaf features'] = L([i for i in abst if not chil[i]])
    ref['Tree relationships'] = len(rels)
    ref['Root feature'] = names[0]
    ref['Top features'] = L(chil[0])
    solitary = [i for i in allf if i in relof and len(rels[relof[i]][1]) == 1]
    grouped = [i for i in allf if i in relof and len(rels[relof[i]][1]) > 1]
    ref['Solitary features'] = L(solitary)
    ref['Grouped features'] = L(grouped)
    ref['Mandatory features'] = L([i for i in solitary if cls[relof[i]] == 'mandatory'])
    ref['Optional features'] = L([i for i in solitary if cls[relof[i]] == 'optional'])
    groups = [i for i in allf if any(len(rels[ri][1]) > 1 for ri in rbp[i])]
    ref['Feature groups'] = L(groups)
    for nm, c in [('Alternative groups', 'alternative'), ('Or groups', 'or'), ('Mutex groups', 'mutex'), ('Cardinality groups', 'cardinality')]:
        ref[nm] = L([i for i in allf if any(cls[ri] == c for ri in rbp[i])])
    if comp:
        ref['Branching factor'] = round(sum(len(chil[i]) for i in comp) / len(comp), 2)
        ref['Min children per feature'] = min(len(chil[i]) for i in comp)
    else:
        ref['Branching factor'] = None       # any number
        ref['Min children per feature'] = None
    ref['Max children per feature'] = max(len(chil[i]) for i in allf)
    ref['Avg children per feature'] = round(sum(len(chil[i]) for i in allf) / n, 2)

    def depth(i):
        d = 0
        while par[i] is not None:
            i = par[i]
            d += 1
        return d
    depths = [depth(i) for i in leaf]
    ref['Depth of tree'] = max(depths)
    ref['Max depth of tree'] = max(depths)
    ref['Mean depth of tree'] = round(statistics.mean(depths), 2)
    ref['Median depth of tree'] = round(statistics.median(depths), 2)
    ref['Cross-tree constraints'] = len(trees)
    forms = [c18.simple_form(t) for t in trees]
    logical = [all(o in c18.LOGICAL for o in c18.ops_of(t)) for t in trees]
    # simple / requires / excludes / complex: the documented forms must be listed under their kind; whatever else is
    # listed as requires (excludes) must be *semantically* 'l implies r' ('not both l and r') for two of its features
    ref['_forms'] = forms
    ref['_logical'] = logical
    ref['_sem'] = [(_sem_simple(t, True), _sem_simple(t, False)) if lg else (False, False) for t, lg in zip(trees, logical)]
    cpf = [sum(1 for t in trees if names[i] in c18.names_of(t)) for i in allf]
    ref['Min constraints per feature'] = min(cpf)
    ref['Max constraints per feature'] = max(cpf)
    ref['Avg constraints per feature'] = round(statistics.mean(cpf), 2)
    ref['Features in constraints'] = sorted({nm for t in trees for nm in c18.names_of(t)})
    return ref


def check_report(result, shape, cards, abstract, trees, model, subset=None, feat_names=None) -> list:
    """Returns a list of (key, message); empty = report is fine."""
    out = []
    names = [r['name'] for r in result]
    if len(set(names)) != len(names):
        out.append(('duplicate-metric', 'metric names not unique: %d entries, %d names' % (len(names), len(set(names)))))
        return out
    ref = reference(shape, cards, abstract, trees, feat_names)
    if subset is None:
        missing = [k for k in ref if k not in names and not k.startswith('_')] + [k for k in ('Simple constraints', 'Requires constraints', 'Excludes constraints', 'Complex constraints', 'Pseudo-complex constraints', 'Strict-complex constraints') if k not in names]
        if missing or len(names) != 40:
            out.append(('missing-metric', 'report has %d metrics, missing %r' % (len(names), missing)))
    by = {r['name']: r for r in result}
    sizes = {}
    for nm, r in by.items():
        val = r['result']
        if isinstance(val, (list, tuple)):
            if r['size'] is not None and r['size'] != len(val):
                out.append(('size', '%s: size %r != len(result) %d' % (nm, r['size'], len(val))))
            sizes[nm] = len(val)
        elif nm == 'Root feature':
            sizes[nm] = 1
    for nm, r in by.items():
        if r['ratio'] is not None:
            if not (0 <= r['ratio'] <= 1):
                out.append(('ratio-range', '%s: ratio %r outside [0,1]' % (nm, r['ratio'])))
    if subset is None:
        for nm, r in by.items():
            if r['ratio'] is not None and nm in DENOM and DENOM[nm] in sizes and nm in sizes:
                den = sizes[DENOM[nm]]
                prec = 2 if nm == 'Features in constraints' else 4
                want = float(round(sizes[nm] / den, prec)) if den else 0.0
                if r['ratio'] != want:
                    out.append(('ratio', '%s: ratio %r != %d/%d = %r' % (nm, r['ratio'], sizes[nm], den, want)))
    # constraint kinds (see reference): documented forms listed under their kind, listed ones semantically of that kind
    if 'Requires constraints' in by and 'Excludes constraints' in by:
        strs = [str(c) for c in model.ctcs]
        req_l, exc_l = list(by['Requires constraints']['result']), list(by['Excludes constraints']['result'])
        for i, t in enumerate(trees):
            if i >= len(strs):
                break
            in_req, in_exc = strs[i] in req_l, strs[i] in exc_l
            doc = ref['_forms'][i]
            if doc is not None and doc[0] == 'requires' and not in_req:
                out.append(('value:Requires constraints', 'the documented requires form %r is not listed under Requires constraints' % (t,)))
            if doc is not None and doc[0] == 'excludes' and not in_exc:
                out.append(('value:Excludes constraints', 'the documented excludes form %r is not listed under Excludes constraints' % (t,)))
            if in_req and not ref['_sem'][i][0]:
                out.append(('value:Requires constraints', '%r is listed under Requires constraints but is not equivalent to "l implies r" for any two of its features' % (t,)))
            if in_exc and not ref['_sem'][i][1]:
                out.append(('value:Excludes constraints', '%r is listed under Excludes constraints but is not equivalent to "not both l and r" for any two of its features' % (t,)))
        for lab, lst in (('Requires constraints', req_l), ('Excludes constraints', exc_l)):
            if sum(1 for x in strs if x in set(lst)) != len(lst):
                out.append(('value:' + lab, '%s lists %d entries for %d matching constraints of the model' % (lab, len(lst), sum(1 for x in strs if x in set(lst)))))
    for nm, want in ref.items():
        if nm not in by or nm.startswith('_'):
            continue
        got = by[nm]['result']
        if isinstance(want, list):
            if not isinstance(got, (list, tuple)) or sorted(got) != want:
                out.append(('value:' + nm, '%s: %r != definition %r' % (nm, got, want)))
        elif nm in ('Tree relationships', 'Cross-tree constraints'):
            if len(got) != want:
                out.append(('value:' + nm, '%s: %d entries != definition %d' % (nm, len(got), want)))
        elif want is None:
            if nm == 'Branching factor' and not isinstance(got, (int, float)):
                out.append(('value:' + nm, '%s: %r is not a number' % (nm, got)))
        else:
            if got != want:
                out.append(('value:' + nm, '%s: %r != definition %r' % (nm, got, want)))
    # identities
    def s(nm):
        return set(by[nm]['result']) if nm in by else None
    def split(a, b, whole, label):
        if a is None or b is None or whole is None:
            return
        if (a | b) != whole or (a & b):
            out.append(('identity', '%s do not split %r' % (label, sorted(whole))))
    feats = s('Features')
    split(s('Abstract features'), s('Concrete features'), feats, 'abstract/concrete')
    split(s('Leaf features'), s('Compound features'), feats, 'leaf/compound')
    if feats is not None and 'Root feature' in by:
        split(s('Solitary features'), s('Grouped features'), feats - {by['Root feature']['result']}, 'solitary/grouped')
    for sub in ('Mandatory features', 'Optional features'):
        if s(sub) is not None and s('Solitary features') is not None and not s(sub) <= s('Solitary features'):
            out.append(('identity', '%s not inside solitary features' % sub))
    def l(nm):
        return list(by[nm]['result']) if nm in by else None
    if l('Requires constraints') is not None and l('Excludes constraints') is not None and l('Simple constraints') is not None:
        if sorted(l('Requires constraints') + l('Excludes constraints')) != sorted(l('Simple constraints')):
            out.append(('identity', 'requires + excludes != simple'))
    if l('Simple constraints') is not None and l('Complex constraints') is not None and 'Cross-tree constraints' in by:
        logical = [str(c) for c in model.ctcs if all(o in c18.LOGICAL for o in c18.ops_of(R.node_tree(c.ast.root)))]
        if sorted(l('Simple constraints') + l('Complex constraints')) != sorted(logical):
            out.append(('identity', 'simple + complex != logical constraints'))
    for sub in ('Pseudo-complex constraints', 'Strict-complex constraints'):
        if l(sub) is not None and l('Complex constraints') is not None and not set(l(sub)) <= set(l('Complex constraints')):
            out.append(('identity', '%s not inside complex' % sub))
    # stand-alone operations
    if 'Branching factor' in by and by['Branching factor']['result'] != FMAverageBranchingFactor().execute(model).get_result():
        out.append(('standalone', 'Branching factor differs from FMAverageBranchingFactor'))
    if 'Leaf features' in by and sorted(by['Leaf features']['result']) != sorted(f.name for f in FMLeafFeatures().execute(model).get_result()):
        out.append(('standalone', 'Leaf features differ from FMLeafFeatures'))
    if 'Max depth of tree' in by and by['Max depth of tree']['result'] != FMMaxDepthTree().execute(model).get_result():
        out.append(('standalone', 'Max depth differs from FMMaxDepthTree'))
    if 'Leaf features' in by and by['Leaf features']['size'] != FMCountLeafs().execute(model).get_result():
        out.append(('standalone', 'Leaf features size differs from FMCountLeafs'))
    return out


def _model(shape, cards, abstract, ctc_code):
    trees = [t for t in CTC_SETS[ctc_code] if R.n_features(shape) >= 2]
    m = R.build(shape, cards, abstract=abstract, ctcs=[R.ctc('c%d' % i, t) for i, t in enumerate(trees)])
    return m, trees


def report_ok(shape, cards, abstract, ctc_code) -> bool:
    m, trees = _model(shape, cards, abstract, ctc_code)
    res = FMMetrics().execute(m).get_result()
    return not check_report(res, shape, cards, abstract, trees, m)


def history_ok(shape, cards, abstract, shape2, cards2, ctc_code) -> bool:
    """Two models analysed one after the other on one object == fresh objects."""
    m1, t1 = _model(shape, cards, abstract, ctc_code)
    n2 = R.n_features(shape2)
    ab2 = [i % 2 == 1 for i in range(n2)]
    m2, t2 = _model(shape2, cards2, ab2, (ctc_code + 1) % len(CTC_SETS))
    op = FMMetrics()
    op.execute(m1)
    r2 = op.execute(m2).get_result()
    if check_report(r2, shape2, cards2, ab2, t2, m2):
        return False
    fresh = FMMetrics().execute(m2).get_result()
    return [(r['name'], r['result'], r['size'], r['ratio']) for r in r2] == [(r['name'], r['result'], r['size'], r['ratio']) for r in fresh]


def filter_ok(shape, cards, abstract, ctc_code, methods) -> bool:
    m, trees = _model(shape, cards, abstract, ctc_code)
    op = FMMetrics()
    op.only_these_metrics(list(methods))
    res = op.execute(m).get_result()
    if len(res) != len(set(methods)):
        return False
    for meth in methods:
        if meth in METHOD_TO_NAME and METHOD_TO_NAME[meth] not in [r['name'] for r in res]:
            return False
    return not check_report(res, shape, cards, abstract, trees, m, subset=methods)


def _entry(r):
    return (r['name'], norm_result(r['result']), r['size'], r['ratio'])


def norm_result(v):
    if isinstance(v, (list, tuple, set, frozenset)):
        return sorted((str(x) for x in v))
    return v


def filter_consistent(shape, cards, abstract, ctc_code, methods) -> bool:
    """a report restricted to some metrics contains exactly the entries the full report (which is checked
    against the definitions) has for those metrics: same names, values, sizes, ratios."""
    m, trees = _model(shape, cards, abstract, ctc_code)
    full = {r['name']: _entry(r) for r in FMMetrics().execute(m).get_result()}
    op = FMMetrics()
    op.only_these_metrics(list(methods))
    res = op.execute(m).get_result()
    if len(res) != len(set(methods)):
        return False
    seen = []
    for r in res:
        e = _entry(r)
        if e[0] in seen or e[0] not in full or full[e[0]] != e:
            return False
        seen.append(e[0])
    return True


def filter_pair(shape, cards, i, j) -> bool:
    n = R.n_features(shape)
    meths = [METHODS[i]] if i == j else [METHODS[i], METHODS[j]]
    return filter_consistent(shape, cards, [k % 3 == 1 for k in range(n)], 1, meths)


def single_filters_cover(shape, cards, abstract, ctc_code) -> list:
    """every metric alone: one entry, equal to the full report's entry; the 40 single reports name 40 different metrics."""
    m, trees = _model(shape, cards, abstract, ctc_code)
    full = {r['name']: _entry(r) for r in FMMetrics().execute(m).get_result()}
    names = []
    out = []
    for meth in METHODS:
        op = FMMetrics()
        op.only_these_metrics([meth])
        res = op.execute(m).get_result()
        if len(res) != 1:
            out.append('filter [%s] returns %d entries' % (meth, len(res)))
            continue
        e = _entry(res[0])
        names.append(e[0])
        if full.get(e[0]) != e:
            out.append('filter [%s]: entry %r differs from the full report\'s %r' % (meth, e, full.get(e[0])))
    if len(set(names)) != len(METHODS) or set(names) != set(full):
        out.append('the single-metric reports do not cover the full report: %d names for %d metrics' % (len(set(names)), len(full)))
    return out


def replay_report(shape, cards, abstract, ctc_code):
    shape = totuple(shape)
    cards = [tuple(c) for c in cards]
    m, trees = _model(shape, cards, abstract, ctc_code)
    try:
        res = FMMetrics().execute(m).get_result()
    except Exception as exc:
        return ['metrics raise %s: %s on shape %s cards %r' % (type(exc).__name__, exc, R.shape_str(shape), cards)]
    bad = check_report(res, shape, cards, abstract, trees, m)
    out = ['%s [%s] shape %s cards %r abstract %r ctcs %r' % (msg, key, R.shape_str(shape), cards, abstract, trees) for key, msg in bad]
    # history + filters
    try:
        if not history_ok(shape, cards, abstract, (((),),), [(0, 1)], ctc_code):
            out.append('second model analysed on the same FMMetrics object differs from a fresh analysis (shape %s)' % R.shape_str(shape))
        for meths in (['features'], ['leaf_features', 'branching_factor'], ['mandatory_features', 'solitary_features', 'tree_relationships'], []):
            if not filter_ok(shape, cards, abstract, ctc_code, meths):
                out.append('metric filter %r gives a wrong report (shape %s)' % (meths, R.shape_str(shape)))
        out += ['%s (shape %s cards %r)' % (x, R.shape_str(shape), cards) for x in single_filters_cover(shape, cards, abstract, ctc_code)[:3]]
        rnd = random.Random(len(cards) * 7919 + ctc_code)
        for _ in range(12):
            meths = rnd.sample(METHODS, rnd.randint(2, 5))
            if not filter_consistent(shape, cards, abstract, ctc_code, meths):
                out.append('metric filter %r: entries differ from those of the full report (shape %s cards %r)' % (meths, R.shape_str(shape), cards))
                break
    except Exception as exc:
        out.append('history/filter raises %s: %s' % (type(exc).__name__, exc))
    return out


def replay_filter_pairs(shape, cards, abstract, ctc_code):
    shape = totuple(shape)
    cards = [tuple(c) for c in cards]
    out = []
    for i in range(len(METHODS)):
        for j in range(i + 1, len(METHODS)):
            for meths in ([METHODS[i], METHODS[j]], [METHODS[j], METHODS[i]]):
                try:
                    ok = filter_consistent(shape, cards, abstract, ctc_code, meths)
                except Exception as exc:
                    ok = False
                    out.append('metric filter %r raises %s: %s' % (meths, type(exc).__name__, exc))
                if not ok:
                    out.append('metric filter %r: entries differ from those of the full report (shape %s cards %r)' % (meths, R.shape_str(shape), cards))
                if len(out) >= 3:
                    return out
    return out


def batch_filter_pairs(seed):
    """every ordered pair of the 40 metrics as filter, on three models."""
    res = {'instances': 0, 'nontrivial': 0, 'violations': [], 'native_runs': 0}
    for shape, cards in (((((), ()), ((((),),),)), [(1, 2), (0, 1), (1, 1)]), (SIB, [(1, 1), (1, 2)]), ((((), (), ()),), [(2, 3)])):
        n = R.n_features(shape)
        args = [shape, cards, [i % 2 == 1 for i in range(n)], 4]
        res['instances'] += len(METHODS) * (len(METHODS) - 1)
        res['native_runs'] += len(METHODS) * (len(METHODS) - 1) * 2
        res['nontrivial'] += 1
        bad = replay_filter_pairs(*args)
        if bad:
            res['violations'].append({'label': 'metrics-filter', 'detail': bad[0], 'replay_func': 'replay_filter_pairs', 'replay_args': args})
    res['sample'] = {'filters': 'all ordered pairs of the 40 metrics'}
    return res


SIB = (((), ()), ((), ()))


def batch_native(max_n, lo, hi, seed):
    rnd = random.Random(seed)
    res = {'instances': 0, 'nontrivial': 0, 'violations': [], 'native_runs': 0}
    for shape in R.shapes(max_n)[lo:hi]:
        n = R.n_features(shape)
        allc = list(R.all_cards(shape, allow_zero_max=False))
        pick = allc if len(allc) <= 40 else rnd.sample(allc, 40)
        for cards in pick:
            abstract = [rnd.random() < 0.4 for _ in range(n)]
            code = rnd.randrange(len(CTC_SETS))
            res['instances'] += 1
            res['native_runs'] += 1
            res['nontrivial'] += 1
            bad = replay_report(shape, cards, abstract, code)
            if bad:
                res['violations'].append({'label': 'metrics', 'detail': bad[0], 'replay_func': 'replay_report', 'replay_args': [shape, cards, abstract, code]})
                if len(res['violations']) >= 4:
                    return res
            res['sample'] = {'shape': R.shape_str(shape), 'cards': cards, 'abstract': abstract, 'ctc_set': code}
    return res


def conditions(tier, seed):
    conds = []
    N = 4 if tier == 'quick' else 5
    T = 60 if tier == 'quick' else 200
    for si, shape in indexed_shapes(N):
        n = R.n_features(shape)
        rels = R.relations_of(shape)
        if not rels:
            continue
        imp = 'from fmverif.props import c17 as P\nSHAPE_%d = %r\n' % (si, shape)
        cp, cpre, cexpr = cards_params(shape)
        code = (si + seed) % len(CTC_SETS)
        absl = [i % 3 == 1 for i in range(n)]
        dc = tuple(x for c in R.default_cards(shape) for x in c)
        conds.append(Cond(name='c17_cards_%d' % si, imports=imp, params=cp, pre=cpre,
                          body='P.report_ok(SHAPE_%d, %s, %r, %d)' % (si, cexpr, absl, code), timeout=T,
                          aspect='report == definitions, identities, ratios (cards symbolic)',
                          sample={'shape': R.shape_str(shape), 'symbolic': 'all (min,max)', 'constraints': CTC_SETS[code]}, validate=[dc]))
        fp = ', '.join('x%d: bool' % i for i in range(n))
        conds.append(Cond(name='c17_flags_%d' % si, imports=imp, params=fp, pre=[],
                          body='P.report_ok(SHAPE_%d, %r, [%s], %d)' % (si, R.default_cards(shape), ', '.join('x%d' % i for i in range(n)), (code + 2) % len(CTC_SETS)),
                          timeout=T, aspect='report == definitions (abstract flags symbolic)',
                          sample={'shape': R.shape_str(shape), 'symbolic': 'abstract flags'}, validate=[tuple([False] * n), tuple([True] * n)]))
        if n >= 3:
            fi, fj = (si * 7 + seed) % len(METHODS), (si * 11 + seed + 3) % len(METHODS)
            conds.append(Cond(name='c17_filter_%d' % si, imports=imp, params=cp, pre=cpre,
                              body='P.filter_pair(SHAPE_%d, %s, %d, %d)' % (si, cexpr, fi, fj), timeout=T,
                              aspect='report filtered to two metrics (rotating over the 40; every pair is run natively) == those entries of the full report, cards symbolic',
                              sample={'shape': R.shape_str(shape), 'symbolic': 'all (min,max)', 'filter': [METHODS[fi], METHODS[fj]]},
                              validate=[dc]))
        if n <= 3 or tier != 'quick':
            conds.append(Cond(name='c17_hist_%d' % si, imports=imp, params=cp + ', c: int, d: int', pre=cpre + ['0 <= c <= d <= 2 and d >= 1'],
                              body='P.history_ok(SHAPE_%d, %s, %r, (((), ()),), [(c, d)], %d)' % (si, cexpr, absl, code), timeout=T,
                              aspect='second model on the same object == fresh object', sample={'shape': R.shape_str(shape), 'symbolic': 'cards of both models'},
                              validate=[dc + (1, 2)]))
    return conds


def batches(tier, seed):
    N = 4 if tier == 'quick' else 5
    total = len(R.shapes(N))
    step = total // 16 + 1
    b = [('batch_native', [N, lo, lo + step, seed + lo]) for lo in range(0, total, step)] + [('batch_filter_pairs', [seed])]
    b += [('batch_ctc_metrics', ['depth1', 0, 100000, seed]), ('batch_ctc_metrics', ['mixed', 0, 100000, seed]), ('batch_tall', [])]
    b += [('batch_ctc_metrics', ['depth2r', lo, lo + 1352, seed]) for lo in range(0, 4056, 1352)]
    b += [('batch_ctc_metrics', ['nnf3', lo, lo + 2048, seed]) for lo in range(0, 8192, 2048)]
    if tier != 'quick':
        b += [('batch_ctc_metrics', ['depth2', lo, lo + 4000, seed]) for lo in range(0, 60000, 4000)]
    if tier == 'quick':
        b += [('batch_larger', ['random', seed * 3 + i, 40, 6, 16, 0]) for i in range(2)]
        b += [('batch_larger', ['case', seed, 6, 0, 4, 0])]
        b += [('batch_larger', ['corpus', seed, 48, 0, 0, 150000, i, 2]) for i in range(2)]
    else:
        b += [('batch_larger', ['random', seed * 3 + i, 250, 6, 40, 0]) for i in range(8)]
        b += [('batch_larger', ['case', seed + i, 12, 0, 5, 0]) for i in range(2)]
        b += [('batch_larger', ['corpus', seed, 100000, 0, 0, 10 ** 9, i, 16]) for i in range(16)]
    return b


def info(tier):
    return {
        'assumptions': ['feature names are concrete placeholders: FMMetrics keys dictionaries on names (hashing a symbolic string enumerates)',
                        'ratio denominators are taken from each metric documentation / parent as listed in fmverif/props/c17.py DENOM',
                        'constraint sets are five concrete lists of depth<=2 trees (structural, enumerated); simple-form classification by the reference in c18.simple_form',
                        'metric filter subsets and two-model histories are concrete choices looped over per instance'],
        'coverage': {'functions_encoded': ['FMMetrics.execute/get_result/only_these_metrics/calculate_metamodel_metrics', 'all 40 @metric_method methods', 'flamapy.core Metrics.execute/get_ratio/construct_result (dependency)',
                                           'FMAverageBranchingFactor', 'FMLeafFeatures', 'FMMaxDepthTree', 'FMCountLeafs'],
                     'bounds': {'shapes': 'N<=%d' % (4 if tier == 'quick' else 5), 'history': 2, 'constraints': '<=3 trees'},
                     'stubs': []},
    }


# -- larger inputs: random shapes beyond the exhaustive bound, shipped corpus --------------------------------
from .larger import replay_model  # noqa: E402,F401


def larger_check(shape, cards, m):
    from .c14 import _index
    feats = _index(m)
    names = [f.name for f in feats]
    if len(set(names)) != len(names):
        return []          # duplicated names (some error-guessing corpus files): listings by name are ambiguous, outside the claim
    abstract = [bool(f.is_abstract) for f in feats]
    trees = [R.node_tree(c.ast.root) for c in m.ctcs]
    res = FMMetrics().execute(m).get_result()
    return ['%s [%s]' % (msg, key) for key, msg in check_report(res, shape, cards, abstract, trees, m, feat_names=names)][:3]


def batch_larger(kind, seed, count, lo_n, hi_n, max_bytes, part=0, parts=1):
    from . import larger
    return larger.batch_models(__name__, 'larger_check', 'metrics-larger', kind, seed, count, lo_n, hi_n, max_bytes, part, parts)


# -- the constraint metrics over the constraint-tree families of C18 ------------------------------------------------

CTM_SHAPE = (((), (), ()), ((),))
CTM_NAMES = ['Root', 'A', 'B', 'C', 'D']


DOTTED = {'A': 'lib.core', 'B': 'lib', 'C': 'org.x', 'D': 'org', 'Root': 'Root'}


def _dot(t):
    if isinstance(t, tuple):
        return (t[0],) + tuple(_dot(x) for x in t[1:])
    return DOTTED.get(t, t) if isinstance(t, str) else t


def replay_ctc_metrics(trees, dotted=False):
    """report of a model that carries these constraints: every constraint metric (simple / requires / excludes / complex
    listings and counts, constraints per feature, features in constraints) equals its definition computed on the trees.
    dotted: the features are called lib.core, lib, org.x, org (a name is a name, also with a dot in it)."""
    from .common import totuple as _tt
    trees = [_tt(t) for t in trees]
    names = CTM_NAMES
    if dotted:
        trees = [_dot(t) for t in trees]
        names = [DOTTED[x] for x in CTM_NAMES]
    m = R.build(CTM_SHAPE, [(1, 3), (0, 1)], names=names, ctcs=[R.ctc('k%d' % i, t) for i, t in enumerate(trees)])
    try:
        res = FMMetrics().execute(m).get_result()
    except Exception as exc:
        return ['metrics raise %s: %s on constraints %r' % (type(exc).__name__, exc, trees)]
    bad = check_report(res, CTM_SHAPE, [(1, 3), (0, 1)], [False] * 5, trees, m, feat_names=names)
    return ['%s [%s] constraints %r' % (msg, key, trees) for key, msg in bad]


def batch_ctc_metrics(which, lo, hi, seed):
    names = ['A', 'B', 'C']
    if which == 'depth1':
        trees = [t for t in c18.family_depth1_all_ops(names) if isinstance(t, tuple)]
    elif which == 'depth2r':
        trees = c18.family_depth2_restricted(names)
    elif which == 'depth2':
        trees = [t for t in c18.all_depth2(names) if isinstance(t, tuple)]
    elif which == 'mixed':
        trees = c18.family_mixed_kinds(names)
    else:
        trees = c18.family_nnf3(names + ['D'], False)
    res = {'instances': 0, 'nontrivial': 0, 'violations': [], 'native_runs': 0}
    rnd = random.Random(seed)
    # aggregate functions take attribute names: whether those count as "features in the constraint" is not fixed by the property
    trees = [t for t in trees if not any(o in c18.AGGR for o in c18.ops_of(t))]
    part = trees[lo:hi]
    for i, t in enumerate(part):
        # one constraint alone, and together with a second one of the family (counts, per-feature statistics)
        cases = [[t]] if i % 3 else [[t], [t, rnd.choice(part)]]
        for ts in cases:
            res['instances'] += 1
            res['native_runs'] += 1
            res['nontrivial'] += 1
            dotted = (i % 4 == 1)
            bad = replay_ctc_metrics(ts, dotted)
            if bad:
                res['violations'].append({'label': 'constraint-metrics', 'detail': bad[0][:600], 'replay_func': 'replay_ctc_metrics', 'replay_args': [ts, dotted]})
                if len(res['violations']) >= 4:
                    return res
    res['sample'] = {'family': which, 'tree': repr(part[-1]) if part else None}
    return res


# -- tall models: "for every well-formed model the metrics report is produced without error" -----------------------

def replay_tall(depth, siblings, filtered=False):
    """a spine of `depth` mandatory features (optionally each with an optional leaf sibling), built iteratively; the
    report must be produced under the interpreter's default recursion limit and its depth metrics equal the facts."""
    import sys
    from flamapy.metamodels.fm_metamodel.models import Feature, Relation, FeatureModel
    root = Feature('R')
    cur = root
    for i in range(depth):
        c = Feature('S%d' % i)
        cur.add_relation(Relation(cur, [c], 1, 1))
        if siblings:
            cur.add_relation(Relation(cur, [Feature('O%d' % i)], 0, 1))
        cur = c
    m = FeatureModel(root, [])
    old = sys.getrecursionlimit()
    sys.setrecursionlimit(1000)
    try:
        op = FMMetrics()
        if filtered:
            op.only_these_metrics(['features', 'leaf_features'])
        try:
            res = op.execute(m).get_result()
        except RecursionError:
            return ['FMMetrics raises RecursionError on a well-formed model of depth %d (filter: %r)' % (depth, filtered)]
        except Exception as exc:
            return ['FMMetrics raises %s: %s on a model of depth %d' % (type(exc).__name__, exc, depth)]
    finally:
        sys.setrecursionlimit(old)
    by = {e['name']: e for e in res}
    out = []
    nfeat = 1 + depth * (2 if siblings else 1)
    if 'Features' in by and by['Features'].get('size') != nfeat:
        out.append('Features: size %r, expected %d' % (by['Features'].get('size'), nfeat))
    if not filtered:
        for name in ('Depth of tree', 'Max depth of tree'):
            if name in by and by[name].get('result') != depth:
                out.append('%s: %r, expected %d' % (name, by[name].get('result'), depth))
    return out


def batch_tall():
    res = {'instances': 0, 'nontrivial': 0, 'violations': [], 'native_runs': 0}
    for depth in (1, 300, 990, 1500, 3000):
        for siblings in (False, True):
            for filtered in (False, True):
                res['instances'] += 1
                res['native_runs'] += 1
                res['nontrivial'] += 1
                bad = replay_tall(depth, siblings, filtered)
                if bad:
                    res['violations'].append({'label': 'tall-model', 'detail': bad[0], 'replay_func': 'replay_tall', 'replay_args': [depth, siblings, filtered]})
    res['sample'] = {'depths': [1, 300, 990, 1500, 3000], 'recursion_limit': 1000}
    return res
