"""C18 - constraint classification and splitting are semantically sound."""
from __future__ import annotations

import itertools
import random

from flamapy.core.models.ast import AST, Node, ASTOperation
from flamapy.metamodels.fm_metamodel.models import Constraint
from flamapy.metamodels.fm_metamodel.models.feature_model import (
    split_constraint, split_formula, left_right_features_from_simple_constraint, get_new_ctc_name)

from .. import refsem as R
from ..known import known
from ..runner import Cond
from .common import totuple

ID = 'C18'
LEVEL = 'model_checking'

LOGICAL = {'REQUIRES', 'EXCLUDES', 'AND', 'OR', 'XOR', 'IMPLIES', 'NOT', 'EQUIVALENCE'}
ARITH = {'EQUALS', 'LOWER', 'GREATER', 'LOWER_EQUALS', 'GREATER_EQUALS', 'NOT_EQUALS', 'ADD', 'SUB', 'MUL', 'DIV'}
AGGR = {'SUM', 'AVG', 'LEN', 'FLOOR', 'CEIL'}
UNARY_AGGR = {'LEN', 'FLOOR', 'CEIL'}


def ops_of(tree) -> list:
    if not isinstance(tree, tuple):
        return []
    out = [tree[0]]
    for t in tree[1:]:
        out += ops_of(t)
    return out


def names_of(tree) -> list:
    """Names occurring in a tree (numbers and 'quoted strings' are not feature names)."""
    if isinstance(tree, tuple):
        out = []
        for t in tree[1:]:
            for n in names_of(t):
                if n not in out:
                    out.append(n)
        return out
    if isinstance(tree, (int, float)) or (isinstance(tree, str) and tree.startswith("'")):
        return []
    return [tree]


def is_leafname(t) -> bool:
    return isinstance(t, str)


def simple_form(tree):
    """('requires'|'excludes', l, r) when the tree is one of the seven documented simple forms."""
    if not isinstance(tree, tuple) or len(tree) != 3:
        return None
    op, l, r = tree
    neg = lambda t: isinstance(t, tuple) and t[0] == 'NOT' and is_leafname(t[1])
    if op in ('REQUIRES', 'IMPLIES') and is_leafname(l) and is_leafname(r):
        return ('requires', l, r)
    if op == 'OR' and neg(l) and is_leafname(r):
        return ('requires', l[1], r)
    if op == 'OR' and is_leafname(l) and neg(r):
        return ('requires', r[1], l)
    if op == 'EXCLUDES' and is_leafname(l) and is_leafname(r):
        return ('excludes', l, r)
    if op in ('IMPLIES',) and is_leafname(l) and neg(r):
        return ('excludes', l, r[1])
    if op == 'OR' and neg(l) and neg(r):
        return ('excludes', l[1], r[1])
    return None


def check_tree(tree) -> list:
    """All C18 obligations for one expression tree; returns [(key, message)]."""
    import z3
    out = []
    c = R.ctc('ctc', tree)
    before = R.node_tree(c.ast.root)
    ops = ops_of(tree)
    logical_tree = all(o in LOGICAL for o in ops)

    def call(name, fn):
        try:
            return fn()
        except Exception as exc:
            out.append(('raises:' + name, '%s raises %s: %s' % (name, type(exc).__name__, exc)))
            return None
    log = call('is_logical_constraint', c.is_logical_constraint)
    ari = call('is_arithmetic_constraint', c.is_arithmetic_constraint)
    agg = call('is_aggregation_constraint', c.is_aggregation_constraint)
    single = call('is_single_feature_constraint', c.is_single_feature_constraint)
    req = call('is_requires_constraint', c.is_requires_constraint)
    exc = call('is_excludes_constraint', c.is_excludes_constraint)
    simple = call('is_simple_constraint', c.is_simple_constraint)
    cx = call('is_complex_constraint', c.is_complex_constraint)
    feats = call('get_features', c.get_features)
    if log is not None and log != logical_tree:
        out.append(('kind-logical', 'is_logical_constraint=%r but operators are %r' % (log, ops)))
    if ari is not None and ari != any(o in ARITH for o in ops):
        out.append(('kind-arithmetic', 'is_arithmetic_constraint=%r but operators are %r' % (ari, ops)))
    if agg is not None and agg != any(o in AGGR for o in ops):
        out.append(('kind-aggregation', 'is_aggregation_constraint=%r but operators are %r' % (agg, ops)))
    if None not in (log, ari, agg) and log != (not ari and not agg):
        out.append(('kind-consistency', 'logical=%r arithmetic=%r aggregation=%r are not mutually consistent' % (log, ari, agg)))
    if feats is not None and not any(o in AGGR for o in ops):
        # aggregate calls mix attribute and feature names: what get_features should report for them is
        # not fixed by the property, so they are left out of this obligation
        if sorted(feats) != sorted(names_of(tree)):
            out.append(('get-features', 'get_features()=%r but names occurring are %r' % (sorted(feats), sorted(names_of(tree)))))
    want_single = is_leafname(tree) or (isinstance(tree, tuple) and tree[0] == 'NOT' and is_leafname(tree[1]))
    if logical_tree and single is not None and bool(single) != want_single:
        out.append(('single-feature', 'is_single_feature_constraint=%r' % single))
    if None not in (req, exc, simple) and simple != (req or exc):
        out.append(('simple-def', 'simple=%r requires=%r excludes=%r' % (simple, req, exc)))
    if None not in (cx, simple, log) and cx != (log and not simple):
        out.append(('complex-def', 'complex=%r logical=%r simple=%r' % (cx, log, simple)))
    if logical_tree:
        ctx = z3.Context()
        env = {}
        meaning = R.ast2z3(c.ast.root, env, z3, ctx)
        ref = R.tree2z3_expr(tree, env, z3, ctx)
        if R.equivalent(z3, ctx, meaning, ref) is not True:
            raise RuntimeError('ast2z3 and tree2z3_expr disagree on %r' % (tree,))
        sf = simple_form(tree)
        if sf is not None:
            if sf[0] == 'requires' and req is False:
                out.append(('simple-form-missed', 'documented requires form not reported as requires'))
            if sf[0] == 'excludes' and exc is False:
                out.append(('simple-form-missed', 'documented excludes form not reported as excludes'))
        if req or exc:
            lr = call('left_right_features_from_simple_constraint', lambda: left_right_features_from_simple_constraint(c))
            if lr is not None:
                l, r = lr
                if not (isinstance(l, str) and isinstance(r, str) and l in env and r in env):
                    out.append(('left-right', 'left/right %r are not names of the constraint' % (lr,)))
                else:
                    if req:
                        okr = R.equivalent(z3, ctx, meaning, z3.Implies(env[l], env[r], ctx))
                        if okr is not True:
                            out.append(('requires-unsound', 'reported requires but not equivalent to %s => %s' % (l, r)))
                    if exc:
                        oke = R.equivalent(z3, ctx, meaning, z3.Not(z3.And(env[l], env[r], ctx), ctx))
                        if oke is not True:
                            key = 'excludes-unsound'
                            out.append((key, 'reported excludes but not equivalent to not(%s and %s)' % (l, r)))
        ps = call('is_pseudocomplex_constraint', c.is_pseudocomplex_constraint)
        st = call('is_strictcomplex_constraint', c.is_strictcomplex_constraint)
        if None not in (ps, st, cx):
            if (ps or st) and not cx:
                out.append(('pseudo-strict-inside-complex', 'pseudo=%r strict=%r but complex=%r' % (ps, st, cx)))
            if cx and (bool(ps) == bool(st)):
                out.append(('complex-exactly-one', 'complex constraint with pseudo=%r strict=%r' % (ps, st)))
        for msg in complex_kind_disagreement(tree, c):
            out.append(('complex-kind', msg))
        parts = call('split_constraint', lambda: split_constraint(c))
        if parts is not None:
            if not parts:
                out.append(('split-empty', 'split_constraint returned no constraint'))
            else:
                try:
                    conj = z3.And([R.ast2z3(p.ast.root, env, z3, ctx) for p in parts], ctx)
                    eq = R.equivalent(z3, ctx, conj, meaning)
                except ValueError as e:
                    eq = False
                if eq is not True:
                    key = 'split-not-equivalent'
                    if 'XOR' in ops or 'EQUIVALENCE' in ops:
                        key = 'split-not-equivalent:xor-or-equivalence'
                    out.append((key, 'conjunction of split_constraint parts %r is not equivalent to the constraint' % [str(p.ast) for p in parts]))
                if any(not isinstance(p, Constraint) for p in parts):
                    out.append(('split-type', 'split_constraint returned a non-Constraint'))
    if R.node_tree(c.ast.root) != before:
        out.append(('mutated', 'the queries modified the constraint AST: %r -> %r' % (before, R.node_tree(c.ast.root))))
    return out


def replay_tree(tree):
    tree = totuple(tree)
    out = []
    for key, msg in check_tree(tree):
        if known('C18', key):
            continue
        out.append('%s [%s] on %r' % (msg, key, tree))
    return out


def witness_split_dependency() -> bool:
    return any(k == 'split-not-equivalent:xor-or-equivalence' for k, _ in check_tree(('EQUIVALENCE', 'A', 'B')))


# ---------------------------------------------------------------------------------------------
# tree families


def family_depth1_all_ops(names):
    trees = list(names)
    trees += [('NOT', n) for n in names]
    allbin = sorted((LOGICAL - {'NOT'}) | ARITH | (AGGR - UNARY_AGGR))
    for op in allbin:
        for l in names:
            for r in names:
                trees.append((op, l, r))
    for op in sorted(UNARY_AGGR):
        for n in names:
            trees.append((op, n))
    return trees


def family_depth2_restricted(names):
    """root in all eight logical operators, children in {leaf, NOT leaf, AND, IMPLIES}."""
    kids = list(names) + [('NOT', n) for n in names]
    for op in ('AND', 'IMPLIES'):
        for l in names:
            for r in names:
                kids.append((op, l, r))
    trees = [('NOT', k) for k in kids]
    for op in R.BIN_OPS:
        for l in kids:
            for r in kids:
                trees.append((op, l, r))
    return trees


def family_mixed_kinds(names):
    """depth-2 trees with one arithmetic / aggregate node, numeric and 'string' leaves."""
    leaves = list(names) + [3, 2.5, "'txt'"]
    trees = []
    for cmp_ in ('EQUALS', 'LOWER', 'GREATER', 'LOWER_EQUALS', 'GREATER_EQUALS', 'NOT_EQUALS'):
        for ar in ('ADD', 'SUB', 'MUL', 'DIV'):
            trees.append((cmp_, (ar, names[0], leaves[3]), names[1]))
            trees.append((cmp_, names[0], (ar, names[1], names[2])))
        for ag in ('SUM', 'AVG'):
            trees.append((cmp_, (ag, names[0], names[1]), 10))
        for ag in sorted(UNARY_AGGR):
            trees.append((cmp_, (ag, names[0]), 4))
        trees.append((cmp_, names[0], "'txt'"))
        trees.append((cmp_, names[0], 2.5))
    for lop in ('AND', 'OR', 'IMPLIES'):
        trees.append((lop, ('EQUALS', names[0], 1), names[1]))
        trees.append((lop, names[2], ('GREATER', ('SUM', names[0], names[1]), 3)))
    trees.append(('NOT', ('EQUALS', names[0], 1)))
    # numeric leaves that are falsy in Python (0, 0.0), negative numbers, the empty string literal
    for leaf in (0, 0.0, -1, -2.5, "''"):
        trees.append(('EQUALS', names[0], leaf))
        trees.append(('GREATER', leaf, names[1]))
        trees.append(('LOWER_EQUALS', ('ADD', names[0], leaf), ('MUL', leaf, names[1])))
        trees.append(('IMPLIES', names[2], ('NOT_EQUALS', ('SUM', names[0], names[1]), leaf)))
    return trees


def family_nnf3(names, with_not=False):
    """depth-3 trees over AND / OR (optionally negated leaves) in the four association patterns."""
    leaves = list(names) + ([('NOT', n) for n in names] if with_not else [])
    trees = []
    for o1, o2, o3 in itertools.product(('AND', 'OR'), repeat=3):
        for x, y, z, w in itertools.product(leaves, repeat=4):
            trees.append((o1, (o2, (o3, x, y), z), w))
            trees.append((o1, w, (o2, z, (o3, x, y))))
            trees.append((o1, (o2, z, (o3, x, y)), w))
            trees.append((o1, (o2, x, y), (o3, z, w)))
    return trees


def random_deep(rnd, names, depth):
    if depth == 0 or rnd.random() < 0.15:
        return rnd.choice(names)
    if rnd.random() < 0.25:
        return ('NOT', random_deep(rnd, names, depth - 1))
    return (rnd.choice(R.BIN_OPS), random_deep(rnd, names, depth - 1), random_deep(rnd, names, depth - 1))


def all_depth2(names):
    return R.logical_trees(names, 2)


def batch_family(which, lo, hi, seed):
    names = ['A', 'B', 'C']
    if which == 'depth1':
        trees = family_depth1_all_ops(names)
    elif which == 'depth2r':
        trees = family_depth2_restricted(names)
    elif which == 'mixed':
        trees = family_mixed_kinds(names)
    elif which == 'depth2':
        trees = all_depth2(names)
    elif which == 'nnf3':
        trees = family_nnf3(names)
    elif which == 'nnf3not':
        trees = family_nnf3(names[:2], True)
    elif which == 'both':
        trees = family_both_sides(names + ['D'])
    elif which == 'random':
        rnd = random.Random(seed)
        trees = [random_deep(rnd, names + ['D'], rnd.randint(3, 4)) for _ in range(hi - lo)]
        lo, hi = 0, len(trees)
    trees = trees[lo:hi]
    res = {'instances': 0, 'nontrivial': 0, 'violations': [], 'native_runs': 0}
    keys_seen = set()
    import signal

    class _Slow(BaseException):
        pass

    fired = [False]

    def _alarm(sig, frm):
        fired[0] = True
        signal.alarm(1)      # re-arm: an exception raised inside a __del__ / ctypes callback is swallowed
        raise _Slow()
    signal.signal(signal.SIGALRM, _alarm)
    res['skipped_slow'] = 0
    for t in trees:
        res['instances'] += 1
        res['native_runs'] += 1
        if isinstance(t, tuple):
            res['nontrivial'] += 1
        fired[0] = False
        signal.alarm(4)
        try:
            found = check_tree(t)
        except BaseException:
            if not fired[0]:
                raise
            res['skipped_slow'] += 1     # CNF blow-up on a deep tree (the alarm may surface through a z3 callback): a time limit is not a verdict
            continue
        finally:
            signal.alarm(0)
        for key, msg in found:
            if known('C18', key):
                continue
            if key in keys_seen and len(res['violations']) >= 6:
                continue
            keys_seen.add(key)
            res['violations'].append({'label': 'tree-' + key.split(':')[0], 'detail': '%s [%s] on %r' % (msg, key, t),
                                      'replay_func': 'replay_tree', 'replay_args': [t]})
        if len(res['violations']) >= 12:
            break
    res['sample'] = {'family': which, 'tree': repr(trees[-1]) if trees else None}
    return res


# ---------------------------------------------------------------------------------------------
# E1: names symbolic


def features_named(shape_code, n1, n2) -> bool:
    """get_features() == names occurring, with two symbolic leaf names."""
    trees = [('IMPLIES', n1, n2), ('OR', ('NOT', n1), ('AND', n2, 'K')), ('NOT', n1), ('EXCLUDES', n2, n1),
             ('AND', ('XOR', n1, 'K'), ('EQUIVALENCE', n2, n1))]
    t = trees[shape_code]
    c = R.ctc('c', t)
    got = c.get_features()
    want = []
    for n in [n1, n2, 'K']:
        if n in _leaves(t) and n not in want:
            want.append(n)
    if len(got) != len(want):
        return False
    for w in want:
        if not any(len(g) == len(w) and g == w for g in got):
            return False
    return True


def _leaves(t):
    if isinstance(t, tuple):
        out = []
        for x in t[1:]:
            out += _leaves(x)
        return out
    return [t]


def new_name(names, prefix) -> bool:
    got = get_new_ctc_name(names, prefix)
    if got in names:
        return False
    return got[:len(prefix)] == prefix


def conditions(tier, seed):
    conds = []
    imp = 'from fmverif.props import c18 as P\n'
    L = 2 if tier == 'quick' else 3
    for code in range(5):
        conds.append(Cond(
            name='c18_feat_%d' % code, imports=imp, params='n1: str, n2: str',
            pre=['1 <= len(n1) <= %d' % L, '1 <= len(n2) <= %d' % L, 'n1 != n2', 'n1 != "K" and n2 != "K"',
                 'not n1.startswith(chr(39)) and not n2.startswith(chr(39))'],
            body='P.features_named(%d, n1, n2)' % code, timeout=40 if tier == 'quick' else 120,
            aspect='get_features on symbolic leaf names', sample={'tree_code': code, 'symbolic': 'two leaf names'},
            validate=[('A', 'B'), ('a b', '1'), ('é', 'OR')]))
    conds.append(Cond(
        name='c18_newname', imports=imp, params='names: List[str], prefix: str',
        pre=['len(names) <= 3', 'len(prefix) <= 2', 'all(len(n) <= 3 for n in names)'],
        body='P.new_name(names, prefix)', timeout=40 if tier == 'quick' else 120,
        aspect='get_new_ctc_name', sample={'symbolic': 'list of names (<=3) and prefix'},
        validate=[(['c', 'c1', 'c2'], 'c'), ([], ''), (['x'], 'x')]))
    return conds


def batches(tier, seed):
    b = []
    n1 = len(family_depth1_all_ops(['A', 'B', 'C']))
    b.append(('batch_family', ['depth1', 0, n1, seed]))
    b.append(('batch_family', ['mixed', 0, 10000, seed]))
    if tier == 'quick':
        n2 = len(family_depth2_restricted(['A', 'B', 'C']))
        step = n2 // 12 + 1
        b += [('batch_family', ['depth2r', lo, lo + step, seed]) for lo in range(0, n2, step)]
        b += [('batch_family', ['random', 0, 150, seed * 7 + i]) for i in range(2)]
        n3 = len(family_nnf3(['A', 'B', 'C']))
        b += [('batch_family', ['nnf3', lo, lo + n3 // 6 + 1, seed]) for lo in range(0, n3, n3 // 6 + 1)]
        b += [('batch_family', ['both', lo, lo + 1800, seed]) for lo in range(0, 7200, 1800)]
    else:
        b += [('batch_family', ['both', lo, lo + 900, seed]) for lo in range(0, 7200, 900)]
        n2 = len(all_depth2(['A', 'B', 'C']))
        step = n2 // 48 + 1
        b += [('batch_family', ['depth2', lo, lo + step, seed]) for lo in range(0, n2, step)]
        b += [('batch_family', ['random', 0, 250, seed * 7 + i]) for i in range(8)]
        n3 = len(family_nnf3(['A', 'B', 'C']))
        b += [('batch_family', ['nnf3', lo, lo + n3 // 8 + 1, seed]) for lo in range(0, n3, n3 // 8 + 1)]
        n4 = len(family_nnf3(['A', 'B'], True))
        b += [('batch_family', ['nnf3not', lo, lo + n4 // 8 + 1, seed]) for lo in range(0, n4, n4 // 8 + 1)]
    return b


def info(tier):
    return {
        'assumptions': ['constraint trees are structural and enumerated by the generator (enumeration); the truth-assignment quantifier is decided by z3 per tree',
                        'operator tables (logical / arithmetic+comparison / aggregation) are written from the property text, independent of flamapy.core constants',
                        'dependency code flamapy.core simplify_formula / propagate_negation / to_cnf is executed as is'],
        'coverage': {'functions_encoded': ['Constraint.is_* (11 predicates)', 'Constraint.get_features', 'left_right_features_from_simple_constraint', 'split_constraint', 'split_formula', 'get_new_ctc_name',
                                           'flamapy.core simplify_formula/propagate_negation/to_cnf (dependency)'],
                     'bounds': {'trees': 'all depth<=1 over 3 names and all 23 operators; ' + ('restricted depth 2' if tier == 'quick' else 'all depth<=2 over 3 names and 8 logical operators (59049)') + '; seeded random depth 3-5',
                                'names_E1': 'two symbolic names, len<=%d' % (2 if tier == 'quick' else 3)},
                     'stubs': []},
    }


# -- reference definition of pseudo- / strict-complex ------------------------------------------------------------
# "A complex constraint is pseudo-complex when it splits into simple (requires / excludes) constraints only, strict-
# complex otherwise." The split is the clause set of the constraint's CNF. The reference computes the *raw* clause set
# (eliminate => / requires / excludes, push negations inwards, distribute OR over AND, nothing simplified away) and
# answers only where that set is canonical: no clause mentions a feature twice (no tautology, no repeated literal).
# There every correct distribution procedure yields the same set of clauses, so the answer does not depend on how the
# library happens to arrange its own conversion. Trees with XOR / EQUIVALENCE are left out (dependency finding).

def _nnf(t, neg=False):
    if not isinstance(t, tuple):
        return ('lit', t, not neg)
    op = t[0]
    if op == 'NOT':
        return _nnf(t[1], not neg)
    if op in ('IMPLIES', 'REQUIRES'):
        return _nnf(('OR', ('NOT', t[1]), t[2]), neg)
    if op == 'EXCLUDES':
        return _nnf(('OR', ('NOT', t[1]), ('NOT', t[2])), neg)
    if op in ('AND', 'OR'):
        o = op if not neg else ('OR' if op == 'AND' else 'AND')
        return (o, _nnf(t[1], neg), _nnf(t[2], neg))
    raise ValueError(op)


def _clauses(n):
    if n[0] == 'lit':
        return [[(n[1], n[2])]]
    if n[0] == 'AND':
        return _clauses(n[1]) + _clauses(n[2])
    return [a + b for a in _clauses(n[1]) for b in _clauses(n[2])]


def ref_complex_kind(tree):
    """'pseudo' | 'strict' | None (reference does not answer: not purely and/or/not/implies/requires/excludes, or the raw
    clause set is not canonical)."""
    if not isinstance(tree, tuple) or not all(o in (LOGICAL - {'XOR', 'EQUIVALENCE'}) for o in ops_of(tree)):
        return None
    cls = _clauses(_nnf(tree))
    for c in cls:
        if len({nm for nm, _ in c}) != len(c):
            return None
    simple = all(len(c) == 2 and not (c[0][1] and c[1][1]) for c in cls)
    return 'pseudo' if simple else 'strict'


def complex_kind_disagreement(tree, c=None):
    """[] or a message when the constraint is complex and its pseudo / strict verdicts differ from the reference."""
    kind = ref_complex_kind(tree)
    if kind is None:
        return []
    c = R.ctc('c', tree) if c is None else c
    try:
        if not c.is_complex_constraint():
            return []
        ps, st = c.is_pseudocomplex_constraint(), c.is_strictcomplex_constraint()
    except Exception:
        return []          # exceptions are reported by check_tree
    if (ps, st) != (kind == 'pseudo', kind == 'strict'):
        return ['%r is complex and splits into %s, i.e. it is %s-complex; the predicates say pseudo=%r strict=%r'
                % (tree, 'requires / excludes clauses only' if kind == 'pseudo' else 'clauses of which one is not a requires / excludes', kind, ps, st)]
    return []


def family_both_sides(names):
    """(x o1 y) o (z o2 w) over literals and negated literals: compound operands on BOTH sides (the CNF distributes twice)."""
    lits = list(names) + [('NOT', n) for n in names]
    out = []
    for o in ('IMPLIES', 'OR', 'AND', 'EXCLUDES', 'REQUIRES'):
        for o1 in ('AND', 'OR'):
            for o2 in ('AND', 'OR'):
                for x, y, z, w in itertools.product(lits[:4] + lits[len(names):len(names) + 2], repeat=4):
                    if len({str(x), str(y), str(z), str(w)}) == 4:
                        out.append((o, (o1, x, y), (o2, z, w)))
    return out
