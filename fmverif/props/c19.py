"""C19 - operations depend only on their argument; read-only ones never mutate it; random attributes."""
from __future__ import annotations

import random as _random

from flamapy.core.exceptions import FlamaException
from flamapy.metamodels.fm_metamodel.models import Attribute, Domain, Range, Feature
from flamapy.metamodels.fm_metamodel.operations import (
    FMAtomicSets, FMAverageBranchingFactor, FMCoreFeatures, FMCountLeafs, FMEstimatedConfigurationsNumber,
    FMFeatureAncestors, FMLeafFeatures, FMMaxDepthTree, FMMetrics, FMVariationPoints, GenerateRandomAttribute)
from flamapy.metamodels.fm_metamodel.operations import fm_generate_random_attribute as GRA

from .. import refsem as R
from ..known import known
from ..runner import Cond
from .common import cards_params, indexed_shapes, totuple
from .c14 import _index
from .c17 import CTC_SETS

ID = 'C19'
LEVEL = 'model_checking'

OPS = [FMAtomicSets, FMAverageBranchingFactor, FMCoreFeatures, FMCountLeafs, FMEstimatedConfigurationsNumber,
       FMFeatureAncestors, FMLeafFeatures, FMMaxDepthTree, FMMetrics, FMVariationPoints]


def norm(v):
    if isinstance(v, Feature):
        return ('F', v.name)
    if isinstance(v, dict):
        return ('D', sorted(((norm(k), norm(x)) for k, x in v.items()), key=repr))
    if isinstance(v, (set, frozenset)):
        return ('S', sorted((norm(x) for x in v), key=repr))
    if isinstance(v, (list, tuple)):
        return ('L', [norm(x) for x in v])
    return v


def _run(op, m, target_last=True):
    if isinstance(op, FMFeatureAncestors):
        feats = _index(m)
        op.set_feature(feats[-1])
    return norm(op.execute(m).get_result())


def _mk(shape, cards, code):
    n = R.n_features(shape)
    trees = CTC_SETS[code] if n >= 2 else []
    # names (and constraint names) not in sorted order: an operation that sorts one of the model's own lists in place shows in the snapshot
    names = ['F0', 'F1'] + ['F%d' % (n + 1 - i) for i in range(2, n)]
    return R.build(shape, cards, names=names[:n], abstract=[i % 2 == 1 for i in range(n)], ctcs=[R.ctc('c%d' % (len(trees) - i), t) for i, t in enumerate(trees)])


def pure_and_history_free(opi, shape, cards, shape2, cards2, shape3=None, cards3=None) -> bool:
    """Read-only: snapshot unchanged; result after executing on earlier models == fresh result."""
    cls = OPS[opi]
    m1 = _mk(shape, cards, 1)
    m2 = _mk(shape2, cards2, 2)
    s1, s2 = R.snapshot(m1), R.snapshot(m2)
    op = cls()
    r1 = _run(op, m1)
    if R.snapshot(m1) != s1:
        return False
    if shape3 is not None:
        m3 = _mk(shape3, cards3, 3)
        _run(op, m3)
    r2 = _run(op, m2)
    if R.snapshot(m2) != s2 or R.snapshot(m1) != s1:
        return False
    fresh2 = _run(cls(), m2)
    if r2 != fresh2:
        return False
    # another operation object of the same class is not influenced either
    other = cls()
    if _run(other, m1) != r1:
        return False
    return True


def definitions_hold_in_sequence(shape, cards, shape2, cards2) -> bool:
    """Each model of a sequence is analysed by every operation and compared with its *definition*
    (the oracles of C13-C17), not only with a fresh operation object: a process-wide cache would make a
    fresh object wrong in the same way."""
    from . import c13, c14, c15, c16, c17
    for sh, cd in ((shape, cards), (shape2, cards2), (shape, cards)):
        n = R.n_features(sh)
        if not (c13.exact(sh, cd) and c14.exact(sh, cd) and c15.sound(sh, cd) and c16.ops(sh, cd)):
            return False
        if not c17.report_ok(sh, cd, [i % 2 == 1 for i in range(n)], 1):
            return False
    return True


def replay_sequence(shape, cards, shape2, cards2):
    shape, shape2 = totuple(shape), totuple(shape2)
    cards, cards2 = [tuple(c) for c in cards], [tuple(c) for c in cards2]
    try:
        ok = definitions_hold_in_sequence(shape, cards, shape2, cards2)
    except Exception as exc:
        return ['sequence raises %s: %s' % (type(exc).__name__, exc)]
    return [] if ok else ['analysing %s %r, then %s %r, then the first again: an operation result differs from its definition (depends on the earlier executions)'
                          % (R.shape_str(shape), cards, R.shape_str(shape2), cards2)]


def batch_sequences(max_n, lo, hi, seed):
    rnd = _random.Random(seed)
    shapes = R.shapes(max_n)
    pairs = [(a, b) for a in shapes for b in shapes if a != b][lo:hi]
    res = {'instances': 0, 'nontrivial': 0, 'violations': [], 'native_runs': 0}
    for a, b in pairs:
        ca = rnd.choice(list(R.all_cards(a))) if R.relations_of(a) else []
        cb = rnd.choice(list(R.all_cards(b))) if R.relations_of(b) else []
        res['instances'] += 1
        res['native_runs'] += 15
        res['nontrivial'] += 1
        bad = replay_sequence(a, ca, b, cb)
        if bad:
            res['violations'].append({'label': 'sequence-vs-definition', 'detail': bad[0], 'replay_func': 'replay_sequence', 'replay_args': [a, ca, b, cb]})
            if len(res['violations']) >= 4:
                return res
        res['sample'] = {'first': R.shape_str(a), 'second': R.shape_str(b)}
    return res


def replay_history(opi, shape, cards, shape2, cards2, shape3=None, cards3=None):
    shape, shape2 = totuple(shape), totuple(shape2)
    cards, cards2 = [tuple(c) for c in cards], [tuple(c) for c in cards2]
    if shape3 is not None:
        shape3, cards3 = totuple(shape3), [tuple(c) for c in cards3]
    try:
        ok = pure_and_history_free(opi, shape, cards, shape2, cards2, shape3, cards3)
    except Exception as exc:
        return ['%s raises %s: %s' % (OPS[opi].__name__, type(exc).__name__, exc)]
    return [] if ok else ['%s: model mutated or result depends on an earlier execution (models %s %r then %s %r)'
                          % (OPS[opi].__name__, R.shape_str(shape), cards, R.shape_str(shape2), cards2)]


def batch_history(max_n, seed, count):
    rnd = _random.Random(seed)
    res = {'instances': 0, 'nontrivial': 0, 'violations': [], 'native_runs': 0}
    shapes = R.shapes(max_n)
    for it in range(count):
        s1, s2, s3 = rnd.choice(shapes), rnd.choice(shapes), rnd.choice(shapes)
        c1, c2, c3 = rnd.choice(list(R.all_cards(s1))), rnd.choice(list(R.all_cards(s2))), rnd.choice(list(R.all_cards(s3)))
        if it % 3 == 0:       # unbounded upper limits ([a..*] is stored as card_max == -1) and limits above the child count
            c1 = [(a, rnd.choice([-1, b, len(cs) + 1])) if len(cs) > 1 else (a, b) for (a, b), (p, cs) in zip(c1, R.relations_of(s1))]
            c2 = [(a, rnd.choice([-1, b])) if len(cs) > 1 else (a, b) for (a, b), (p, cs) in zip(c2, R.relations_of(s2))]
        for opi in range(len(OPS)):
            res['instances'] += 1
            res['native_runs'] += 1
            res['nontrivial'] += 1
            args = [opi, s1, c1, s2, c2, s3, c3] if it % 2 else [opi, s1, c1, s2, c2]
            bad = replay_history(*args)
            if bad:
                res['violations'].append({'label': 'history', 'detail': bad[0], 'replay_func': 'replay_history', 'replay_args': args})
                if len(res['violations']) >= 4:
                    return res
        res['sample'] = {'models': [R.shape_str(s1), R.shape_str(s2)], 'cards': [c1, c2]}
    return res


# -- purity on constraint-tree families ----------------------------------------------------------------

CT_SHAPE = (((), (), ()), ((),))
CT_NAMES = ['Root', 'D', 'B', 'A', 'C']      # children of the group are not in name order


def replay_ctc_pure(tree):
    """every operation on a model that carries this constraint: the model (tree, attributes, every node of
    the constraint's expression tree, its printed form) is unchanged afterwards, and a second execution
    returns what the first returned."""
    tree = totuple(tree)
    m = R.build(CT_SHAPE, [(1, 3), (0, 1)], names=CT_NAMES, ctcs=[R.ctc('c0', tree)])
    snap = R.snapshot(m)
    txt = [str(c) for c in m.ctcs]
    ids = [id(c.ast.root) for c in m.ctcs]
    out = []
    for cls in OPS:
        try:
            r1 = _run(cls(), m)
        except Exception as exc:      # whether an operation supports the constraint kind is C17/C18's subject; purity must hold anyway
            r1 = ('raises', type(exc).__name__)
        if R.snapshot(m) != snap or [str(c) for c in m.ctcs] != txt or [id(c.ast.root) for c in m.ctcs] != ids:
            out.append('%s modifies the model it analyses: constraint %s is %s afterwards' % (cls.__name__, txt[0], [str(c) for c in m.ctcs][0]))
            break
        try:
            r2 = _run(cls(), m)
        except Exception as exc:
            r2 = ('raises', type(exc).__name__)
        if r1 != r2:
            out.append('%s: second execution on the same model returns another result (constraint %s)' % (cls.__name__, txt[0]))
            break
    return out


def batch_ctc_pure(which, lo, hi, seed):
    from . import c18
    names = ['A', 'B', 'C']
    if which == 'depth1':
        trees = c18.family_depth1_all_ops(names)
    elif which == 'depth2r':
        trees = c18.family_depth2_restricted(names)
    elif which == 'mixed':
        trees = c18.family_mixed_kinds(names)
    elif which == 'depth2':
        trees = c18.all_depth2(names)
    elif which == 'nnf3':
        trees = c18.family_nnf3(names + ['D'])
    elif which == 'nnf3not':
        trees = c18.family_nnf3(names[:2], True)
    else:
        rnd = _random.Random(seed)
        trees = [c18.random_deep(rnd, names + ['D'], rnd.randint(3, 4)) for _ in range(hi - lo)]
        lo, hi = 0, len(trees)
    res = {'instances': 0, 'nontrivial': 0, 'violations': [], 'native_runs': 0, 'skipped_slow': 0}
    import signal

    class _Slow(BaseException):
        pass

    fired = [False]

    def _alarm(sig, frm):
        fired[0] = True
        signal.alarm(1)
        raise _Slow()
    signal.signal(signal.SIGALRM, _alarm)
    for t in trees[lo:hi]:
        res['instances'] += 1
        res['native_runs'] += 2 * len(OPS)
        res['nontrivial'] += 1 if isinstance(t, tuple) else 0
        fired[0] = False
        signal.alarm(3)
        try:
            bad = replay_ctc_pure(t)
        except BaseException:
            if not fired[0]:
                raise
            res['skipped_slow'] += 1      # CNF blow-up of a deep tree inside the metrics: a time limit is not a verdict
            continue
        finally:
            signal.alarm(0)
        if bad:
            res['violations'].append({'label': 'constraint-purity', 'detail': bad[0] + ' | tree %r' % (t,), 'replay_func': 'replay_ctc_pure', 'replay_args': [t]})
            if len(res['violations']) >= 4:
                return res
    res['sample'] = {'family': which, 'tree': repr(trees[lo:hi][-1]) if trees[lo:hi] else None}
    return res


# -- random attribute generation -------------------------------------------------------------------


class RandomStub:
    """Stub of the `random` module used by fm_generate_random_attribute: every draw is taken from a
    list of (symbolic) integers supplied by the condition."""

    def __init__(self, draws):
        self.draws = list(draws)
        self.i = 0
        self.calls = []

    def _next(self):
        v = self.draws[self.i % len(self.draws)]
        self.i += 1
        return v

    def choice(self, seq):
        d = self._next()
        self.calls.append('choice')
        return seq[d % len(seq)]

    def randint(self, a, b):
        d = self._next()
        self.calls.append('randint')
        return a + d % (b - a + 1)

    def uniform(self, a, b):
        d = self._next()
        self.calls.append('uniform')
        return a + (b - a) * (d % 9) / 8


def gen_attr(shape, have_mask, only_leaves, form, lo, hi, draws, elems=None) -> bool:
    """One execution of GenerateRandomAttribute with a stubbed random."""
    n = R.n_features(shape)
    m = R.build(shape, R.default_cards(shape))
    feats = _index(m)
    chil = R.children_of(shape)
    for i in range(n):
        if have_mask[i]:
            feats[i].add_attribute(Attribute('cost', None, 'preset', None))
        feats[i].add_attribute(Attribute('other%d' % i, None, i, None))
    before = R.snapshot(m)
    elements = list(elems) if elems is not None else ['x', 0, 2.5, '', False, 7]      # listed elements may be falsy: 0, '', False are values like any other
    if form == 'elements':
        dom = Domain(None, elements)
    elif form == 'int':
        dom = Domain([Range(lo, hi)], None)
    elif form == 'int2':
        dom = Domain([Range(lo, hi), Range(hi + 3, hi + 5)], None)
    elif form == 'float':
        dom = Domain([Range(lo / 4, hi / 4 + 0.25)], None)
    elif form == 'mixed':
        dom = Domain([Range(lo, hi)], elements)
    elif form == 'intfloat':      # an integer range and a disjoint range with float bounds in one domain, either order
        dom = Domain([Range(lo, hi), Range(hi + 3.25, hi + 5.5)], None)
    elif form == 'floatint':
        dom = Domain([Range(hi + 3.25, hi + 5.5), Range(lo, hi)], None)
    elif form == 'all':
        dom = Domain([Range(hi + 3.25, hi + 5.5), Range(lo, hi)], elements)
    elif form == 'empty':
        dom = Domain(None, None)
    stub = RandomStub(draws)
    saved = GRA.random
    GRA.random = stub
    try:
        op = GenerateRandomAttribute()
        op.set_name('cost')
        op.set_domain(dom)
        op.set_only_leaf_features(only_leaves)
        res = op.execute(m).get_result()
    finally:
        GRA.random = saved
    if res is not m:
        return False
    after = R.snapshot(m)
    # expected: remove the added attributes and compare with before
    for i in range(n):
        f = feats[i]
        targeted = (not only_leaves) or (not chil[i])
        costs = [a for a in f.attributes if a.name == 'cost']
        if have_mask[i] or not targeted:
            if len(costs) != (1 if have_mask[i] else 0):
                return False
            if have_mask[i] and costs[0].default_value != 'preset':
                return False
        else:
            if len(costs) != 1:
                return False
            a = costs[0]
            if a.parent is not f:
                return False
            v = a.default_value
            if not in_domain(v, form, lo, hi, elements):
                return False
            f.attributes.remove(a)
    return R.snapshot(m) == before


def in_domain(v, form, lo, hi, elements) -> bool:
    def in_elems(x):
        return any(x is e or (type(x) is type(e) and x == e) for e in elements)

    def in_int(x, a, b):
        return isinstance(x, int) and not isinstance(x, bool) and a <= x <= b
    if form == 'elements':
        return in_elems(v)
    if form == 'int':
        return in_int(v, lo, hi)
    if form == 'int2':
        return in_int(v, lo, hi) or in_int(v, hi + 3, hi + 5)
    if form == 'float':
        return isinstance(v, float) and lo / 4 <= v <= hi / 4 + 0.25
    if form == 'mixed':
        return in_elems(v) or in_int(v, lo, hi)
    if form in ('intfloat', 'floatint', 'all'):
        if in_int(v, lo, hi) or (isinstance(v, float) and hi + 3.25 <= v <= hi + 5.5):
            return True
        return form == 'all' and in_elems(v)
    if form == 'empty':
        return v is None
    return False


def missing_domain_is_library_error() -> list:
    """a missing domain is a library error on every model and configuration of the operation: features lacking the
    attribute, every targeted feature already carrying it (e.g. after an earlier generation), leaves only or all, a
    root-only model; and the model is left untouched."""
    out = []
    for shape, cards in (((((),),), [(1, 1)]), ((((), ()), ((),)), [(1, 2), (0, 1)]), ((), [])):
        n = R.n_features(shape)
        chil = R.children_of(shape)
        for have in ('none', 'leaves', 'all'):
            for only_leaves in (False, True):
                m = R.build(shape, cards)
                for i, f in enumerate(_index(m)):
                    if have == 'all' or (have == 'leaves' and not chil[i]):
                        f.add_attribute(Attribute('cost', None, 1, None))
                before = R.snapshot(m)
                op = GenerateRandomAttribute()
                op.set_name('cost')
                op.set_only_leaf_features(only_leaves)
                where = 'shape %s, features that already have the attribute: %s, only leaves: %s' % (R.shape_str(shape), have, only_leaves)
                try:
                    op.execute(m)
                    out.append('missing domain not reported at all (%s)' % where)
                except FlamaException:
                    pass
                except Exception as exc:
                    out.append('missing domain reported as %s (%s), not as a library error (FlamaException) (%s)' % (type(exc).__name__, exc, where))
                if R.snapshot(m) != before:
                    out.append('model modified although the domain is missing (%s)' % where)
    return out


def replay_gen(shape, have_mask, only_leaves, form, lo, hi, draws, elems=None):
    shape = totuple(shape)
    try:
        ok = gen_attr(shape, have_mask, only_leaves, form, lo, hi, draws, elems)
    except Exception as exc:
        return ['GenerateRandomAttribute raises %s: %s (form %s, range %r..%r)' % (type(exc).__name__, exc, form, lo, hi)]
    return [] if ok else ['random attribute generation violates its contract: shape %s have %r only_leaves %r form %s range %r..%r draws %r'
                          % (R.shape_str(shape), have_mask, only_leaves, form, lo, hi, draws)]


def replay_missing_domain():
    return missing_domain_is_library_error()


def batch_gen_native(max_n, seed, count):
    rnd = _random.Random(seed)
    res = {'instances': 1, 'nontrivial': 1, 'violations': [], 'native_runs': 1}
    bad = missing_domain_is_library_error()
    if bad:
        res['violations'].append({'label': 'missing-domain', 'detail': bad[0], 'replay_func': 'replay_missing_domain', 'replay_args': []})
    shapes = R.shapes(max_n)
    for _ in range(count):
        shape = rnd.choice(shapes)
        n = R.n_features(shape)
        lo = rnd.randint(-5, 5)
        args = [shape, [rnd.random() < 0.3 for _ in range(n)], rnd.random() < 0.5,
                rnd.choice(['elements', 'int', 'int2', 'float', 'mixed', 'empty', 'intfloat', 'floatint', 'all']), lo, lo + rnd.randint(0, 6),
                [rnd.randint(0, 50) for _ in range(5)]]
        if rnd.random() < 0.5:
            args.append(rnd.choice([[0], [False, True], ['', 'a'], [0.0, 1.5], [0, 1, 2], [False], ['x', 0, '', False, 0.0], [None, 0]]))
        res['instances'] += 1
        res['native_runs'] += 1
        res['nontrivial'] += 1
        bad = replay_gen(*args)
        if bad:
            res['violations'].append({'label': 'gen-attr', 'detail': bad[0], 'replay_func': 'replay_gen', 'replay_args': args})
            if len(res['violations']) >= 4:
                return res
        res['sample'] = {'shape': R.shape_str(shape), 'form': args[3], 'range': [args[4], args[5]], 'draws': args[6]}
    # real random module (no stub): values still in the domain
    for _ in range(count // 4):
        shape = rnd.choice(shapes)
        m = R.build(shape, R.default_cards(shape))
        lo = rnd.randint(-9, 9)
        hi = lo + rnd.randint(0, 9)
        flo, fhi = round(rnd.uniform(-3, 3), rnd.randint(1, 3)), None
        fhi = round(flo + rnd.uniform(0, 4), rnd.randint(1, 3))
        dom = rnd.choice([Domain([Range(lo, hi)], None), Domain([Range(flo, fhi)], None), Domain([Range(lo, hi)], ['a', 'b']), Domain(None, [1, 'z', None])])
        op = GenerateRandomAttribute()
        op.set_name('w')
        op.set_domain(dom)
        op.execute(m)
        res['native_runs'] += 1
        for f in _index(m):
            vals = [a.default_value for a in f.attributes if a.name == 'w']
            ok = len(vals) == 1 and (vals[0] in dom.element_list or any(
                r.min_value <= vals[0] <= r.max_value and (not isinstance(r.min_value, int) or not isinstance(r.max_value, int) or isinstance(vals[0], int))
                for r in dom.range_list if isinstance(vals[0], (int, float)) and not isinstance(vals[0], bool)))
            if not ok:
                res['violations'].append({'label': 'gen-attr-real-random', 'detail': 'value %r outside domain %s' % (vals, dom),
                                          'replay_func': 'replay_missing_domain', 'replay_args': []})
                return res
    return res


def conditions(tier, seed):
    conds = []
    N = 3
    T = 60 if tier == 'quick' else 200
    imp0 = 'from fmverif.props import c19 as P\n'
    small = [s for s in indexed_shapes(N)]
    # purity / history: cards of both models symbolic; operation and shapes enumerated
    pairs = []
    with_rel = [(si, s) for si, s in small if R.relations_of(s)]
    for k, (si, s) in enumerate(with_rel):
        sj, s2 = with_rel[(k + 1 + seed) % len(with_rel)]
        pairs.append((si, s, sj, s2))
    for opi, cls in enumerate(OPS):
        for (si, s, sj, s2) in (pairs if tier != 'quick' else pairs[opi % 2::2]):
            p1, pre1, e1 = cards_params(s, star=True)       # the first model may carry [a..*] groups (card_max == -1)
            r2 = R.relations_of(s2)
            p2 = ', '.join('c%d: int, d%d: int' % (i, i) for i in range(len(r2)))
            pre2 = ['0 <= c%d <= d%d <= %d and d%d >= 1' % (i, i, len(cs), i) for i, (p, cs) in enumerate(r2)]
            e2 = '[' + ', '.join('(c%d, d%d)' % (i, i) for i in range(len(r2))) + ']'
            imp = imp0 + 'SA_%d = %r\nSB_%d = %r\n' % (si, s, sj, s2)
            val = [tuple(x for c in R.default_cards(s) for x in c) + tuple(x for c in R.default_cards(s2) for x in c)]
            conds.append(Cond(name='c19_hist_%d_%d_%d' % (opi, si, sj), imports=imp, params=p1 + ', ' + p2, pre=pre1 + pre2,
                              body='P.pure_and_history_free(%d, SA_%d, %s, SB_%d, %s)' % (opi, si, e1, sj, e2), timeout=T,
                              aspect='%s: model unchanged, result independent of the earlier execution' % cls.__name__,
                              sample={'operation': cls.__name__, 'models': [R.shape_str(s), R.shape_str(s2)], 'symbolic': 'all cards of both models'},
                              validate=val))
    # sequences against the definitions (detects process-wide state that a fresh object would share)
    for k, (si, s, sj, s2) in enumerate(pairs):
        p1, pre1, e1 = cards_params(s)
        r2 = R.relations_of(s2)
        p2 = ', '.join('c%d: int, d%d: int' % (i, i) for i in range(len(r2)))
        pre2 = ['0 <= c%d <= d%d <= %d and d%d >= 1' % (i, i, len(cs), i) for i, (p, cs) in enumerate(r2)]
        e2 = '[' + ', '.join('(c%d, d%d)' % (i, i) for i in range(len(r2))) + ']'
        imp = imp0 + 'SA_%d = %r\nSB_%d = %r\n' % (si, s, sj, s2)
        val = [tuple(x for c in R.default_cards(s) for x in c) + tuple(x for c in R.default_cards(s2) for x in c)]
        conds.append(Cond(name='c19_seq_%d_%d' % (si, sj), imports=imp, params=p1 + ', ' + p2, pre=pre1 + pre2,
                          body='P.definitions_hold_in_sequence(SA_%d, %s, SB_%d, %s)' % (si, e1, sj, e2), timeout=T * 2,
                          aspect='A, B, A analysed in one process: every operation result equals its definition',
                          sample={'models': [R.shape_str(s), R.shape_str(s2)], 'symbolic': 'all cards of both models'}, validate=val))
    # random attribute generation
    gshapes = [(si, s) for si, s in small if R.n_features(s) >= 2]
    for form in ['elements', 'int', 'int2', 'mixed', 'float', 'empty', 'intfloat', 'floatint', 'all']:
        for (si, s) in (gshapes if tier != 'quick' else gshapes[:3]):
            n = R.n_features(s)
            imp = imp0 + 'SG_%d = %r\n' % (si, s)
            params = 'leaves: bool, ' + ', '.join('h%d: bool' % i for i in range(n)) + ', lo: int, hi: int, d0: int, d1: int, d2: int'
            pre = ['-9 <= lo <= hi <= 9' if form in ('float', 'intfloat', 'floatint', 'all') else 'lo <= hi', '0 <= d0 <= 20 and 0 <= d1 <= 20 and 0 <= d2 <= 20']
            conds.append(Cond(name='c19_gen_%s_%d' % (form, si), imports=imp, params=params, pre=pre,
                              body='P.gen_attr(SG_%d, [%s], leaves, %r, lo, hi, [d0, d1, d2])' % (si, ', '.join('h%d' % i for i in range(n)), form),
                              timeout=T, aspect='GenerateRandomAttribute, domain form %s' % form,
                              sample={'shape': R.shape_str(s), 'symbolic': 'range bounds, random draws, only-leaves flag, which features already have the attribute'},
                              validate=[tuple([False] + [False] * n + [0, 3, 1, 2, 3]), tuple([True] + [True] + [False] * (n - 1) + [-2, -2, 0, 0, 7])]))
    return conds


def batches(tier, seed):
    N = 4 if tier == 'quick' else 5
    per = 12 if tier == 'quick' else 80
    b = [('batch_history', [N, seed * 13 + i, per]) for i in range(8)]
    n = 3 if tier == 'quick' else 4
    total = len(R.shapes(n)) * (len(R.shapes(n)) - 1)
    step = total // 4 + 1
    b += [('batch_sequences', [n, lo, lo + step, seed + lo]) for lo in range(0, total, step)]
    b += [('batch_gen_native', [N, seed * 17 + i, 60 if tier == 'quick' else 600]) for i in range(4)]
    # purity of every operation on models carrying one constraint of each tree family (C18's families)
    b += [('batch_ctc_pure', ['depth1', 0, 100000, seed]), ('batch_ctc_pure', ['mixed', 0, 100000, seed]), ('batch_ctc_pure', ['nnf3not', 0, 100000, seed])]
    b += [('batch_ctc_pure', ['depth2r', lo, lo + 1352, seed]) for lo in range(0, 4056, 1352)]
    b += [('batch_ctc_pure', ['nnf3', lo, lo + 2048, seed]) for lo in range(0, 8192, 2048)]
    b += [('batch_ctc_pure', ['random', 0, 250 if tier == 'quick' else 1500, seed * 19 + i]) for i in range(2 if tier == 'quick' else 12)]
    if tier != 'quick':
        b += [('batch_ctc_pure', ['depth2', lo, lo + 4000, seed]) for lo in range(0, 60000, 4000)]
    return b


def info(tier):
    return {
        'assumptions': ['random is replaced by a stub whose draws are symbolic integers: choice(seq)=seq[d % len], randint(a,b)=a + d % (b-a+1), uniform(a,b)=a+(b-a)*(d%9)/8',
                        'float ranges: bounds lo/4 .. hi/4+0.25 with |lo|,|hi| <= 9 and the 9-point uniform stub; other floats are outside the claim (plus a native run with the real random module)',
                        'histories of length 2 (E1) and 3 (native batch); the ancestors operation is given the last feature of each model',
                        'FMMetrics is included although its accumulation defect lived in the dependency: repaired by an override in this repository'],
        'purity_families': 'every operation on a 5-feature model carrying one constraint from: all depth<=1 trees over 23 operators, depth-2 restricted family, mixed arithmetic kinds, AND/OR depth-3 association patterns over 4 names (8192), negated-leaf variant, random depth 3-5' + ('' if tier == 'quick' else ', all 59049 depth<=2 logical trees over 3 names') + ' (native runs: snapshot incl. every AST node, printed form, identity of the AST root; second execution equal)',
        'coverage': {'functions_encoded': [c.__name__ + '.execute/get_result' for c in OPS] + ['generate_random_attribute_values', 'get_random_value_from_domain', 'get_random_value_from_ranges'],
                     'bounds': {'models_E1': 'N<=3 each', 'history_E1': 2, 'history_native': 3, 'draws': '0..20'},
                     'stubs': ['random.choice/randint/uniform']},
    }
