"""C20 - equality and hashing of model elements obey the contract."""
from __future__ import annotations

import itertools
import math
import random

from flamapy.metamodels.fm_metamodel.models import FeatureModel, Feature, Relation, Constraint

from .. import refsem as R
from ..known import known
from ..runner import Cond
from .common import cards_params, indexed_shapes, totuple

ID = 'C20'
LEVEL = 'model_checking'
POOL = ['Ab', 'aB', 'C', 'D1', 'd', 'E_', 'Ff']


def unrank(items, code):
    """The code-th permutation of items (Lehmer); code may be symbolic."""
    items = list(items)
    out = []
    k = len(items)
    while k > 0:
        idx = code % k
        code = code // k
        out.append(items.pop(idx))
        k -= 1
    return out


def names_ignored_by_constraint_eq() -> bool:
    """Constraint equality of the code under test ignores the constraint's name (it does at the pinned
    commit). Only then must a copy whose constraints are *named by position* (as the FeatureIDE and
    SAT readers do) still be equal: every constraint has an equal counterpart, so this is 'equality
    ignores the order of constraints'. If a future Constraint.__eq__ looks at names, the positional
    naming modes are switched off rather than raising an alarm the property does not cover."""
    return R.ctc('x', ('IMPLIES', 'A', 'B')) == R.ctc('y', ('IMPLIES', 'A', 'B'))


def build_perm(shape, cards, names, rel_codes, feat_code, ctc_trees, ctc_code, ctc_names=0):
    """Independent rebuild with children of each relation, relations of each feature and the
    constraint list permuted. ctc_names: 0 = every constraint keeps its own name, 1 = named by the new
    position, 2 = named by the new position, descending."""
    n = R.n_features(shape)
    feats = [Feature(names[i]) for i in range(n)]
    rels = R.relations_of(shape)
    rbp = R.rels_by_parent(shape)
    for p in range(n):
        order = unrank(rbp[p], feat_code) if len(rbp[p]) > 1 else rbp[p]
        for ri in order:
            _, cs = rels[ri]
            kids = unrank(cs, rel_codes[ri]) if len(cs) > 1 else cs
            feats[p].add_relation(Relation(feats[p], [feats[c] for c in kids], cards[ri][0], cards[ri][1]))
    order = list(range(len(ctc_trees)))
    order = unrank(order, ctc_code) if len(order) > 1 else order
    if ctc_names and not names_ignored_by_constraint_eq():
        ctc_names = 0
    ctcs = []
    for pos, i in enumerate(order):
        nm = 'k%d' % (i if ctc_names == 0 else (pos if ctc_names == 1 else len(order) - 1 - pos))
        ctcs.append(R.ctc(nm, ctc_trees[i]))
    return FeatureModel(feats[0], ctcs)


def decorate(m, names):
    """Give every feature of the model its own field objects (abstract marker, type, feature cardinality,
    an attribute), chosen by the feature's position in `names` - so two independently built copies carry
    equal *values* in distinct objects. The property: a model equals an independently built copy of itself."""
    from flamapy.metamodels.fm_metamodel.models.feature_model import Cardinality, Attribute, FeatureType
    types = [FeatureType.BOOLEAN, FeatureType.INTEGER, FeatureType.BOOLEAN, FeatureType.STRING, FeatureType.REAL]
    todo = [m.root]
    while todo:
        f = todo.pop()
        i = 0
        while names[i] is not f.name and names[i] != f.name:
            i += 1
        f.is_abstract = (i % 2 == 0)
        f.feature_type = types[i % 5]
        f.feature_cardinality = Cardinality(1 + i % 3, [1, 3, -1][i % 3] if i % 3 else 1 + (i % 2))
        att = Attribute('w%d' % (i % 2), None, i, None)
        att.set_parent(f)
        f.add_attribute(att)
        for r in f.relations:
            todo.extend(r.children)
    return m


def uniform_cards(shape):
    """Same cardinality for every relation with the same number of children (so that sibling relations
    differ in their children only)."""
    return [(1, 1) if len(cs) == 1 else (1, len(cs)) for _, cs in R.relations_of(shape)]


def default_ctcs(names):
    if len(names) < 2:
        return []
    a, b = names[0], names[-1]
    c = names[1]
    return [('IMPLIES', a, b), ('OR', ('NOT', c), b), ('EXCLUDES', b, c)]


def perm_equal(shape, name_code, rel_codes, feat_code, ctc_code, with_hash, uniform=True, ctc_names=0) -> bool:
    n = R.n_features(shape)
    names = unrank(POOL[:n], name_code)
    cards = uniform_cards(shape) if uniform else R.default_cards(shape)
    trees = default_ctcs(names)
    m1 = R.build(shape, cards, names=names, ctcs=[R.ctc('c%d' % i, t) for i, t in enumerate(trees)])
    m2 = build_perm(shape, cards, names, rel_codes, feat_code, trees, ctc_code, ctc_names)
    if not (m1 == m2) or not (m2 == m1) or (m1 != m2) or not (m1 == m1):
        return False
    if with_hash and hash(m1) != hash(m2):
        return False
    # the same two models after each feature got its own (equal-valued, distinct) field objects
    decorate(m1, names)
    decorate(m2, names)
    if not (m1 == m2) or not (m2 == m1) or (m1 != m2) or not (m2 == m2):
        return False
    if with_hash and hash(m1) != hash(m2):
        return False
    for f1 in m1.get_features():
        f2 = m2.get_feature_by_name(f1.name)
        if not (f1 == f2) or not (f2 == f1) or (with_hash and hash(f1) != hash(f2)):
            return False
    return True


def perm_equal_cards(shape, cards, with_hash=False) -> bool:
    """All cardinalities symbolic, everything reversed in the copy."""
    n = R.n_features(shape)
    names = [POOL[(i * 3 + 1) % 7] + str(i) for i in range(n)]
    rels = R.relations_of(shape)
    trees = default_ctcs(names)
    m1 = R.build(shape, cards, names=names, ctcs=[R.ctc('c%d' % i, t) for i, t in enumerate(trees)])
    rel_codes = [math.factorial(len(cs)) - 1 for _, cs in rels]
    m2 = build_perm(shape, cards, names, rel_codes, 1, trees, 5)
    if not ((m1 == m2) and (m2 == m1) and not (m1 != m2)):
        return False
    decorate(m1, names)
    decorate(m2, names)
    return (m1 == m2) and (m2 == m1) and not (m1 != m2)


def _walk_rel(m):
    out = []

    def walk(f):
        for r in f.relations:
            out.append(r)
            for c in r.children:
                walk(c)
    walk(m.root)
    return out


def rename_differs(shape, pos, newname) -> bool:
    n = R.n_features(shape)
    names = [POOL[i] for i in range(n)]
    m1 = R.build(shape, R.default_cards(shape), names=names, ctcs=[R.ctc('c', t) for t in default_ctcs(names)])
    names2 = list(names)
    names2[pos] = newname
    m2 = R.build(shape, R.default_cards(shape), names=names2, ctcs=[R.ctc('c', t) for t in default_ctcs(names)])
    if (m1 == m2) or (m2 == m1) or not (m1 != m2):
        return False
    f1, f2 = Feature(names[pos]), Feature(newname)
    if (f1 == f2) or (f2 == f1) or not (f1 == Feature(names[pos])):
        return False
    return True


def card_differs(shape, ri, a, b, a2, b2) -> bool:
    cards = R.default_cards(shape)
    c1 = list(cards)
    c2 = list(cards)
    c1[ri] = (a, b)
    c2[ri] = (a2, b2)
    m1 = R.build(shape, c1)
    m2 = R.build(shape, c2)
    r1 = _walk_rel(m1)[ri]
    r2 = _walk_rel(m2)[ri]
    same = (a == a2 and b == b2)
    if (r1 == r2) != same or (r2 == r1) != same:
        return False
    if (m1 == m2) != same or (m2 == m1) != same:
        return False
    return True


def inplace_rename(shape, pos, newname, code) -> bool:
    """Compare/hash a model, then rename one feature *in place* and compare with an independently
    rebuilt, reversed copy of the new state (a cached key would be stale)."""
    n = R.n_features(shape)
    names = [POOL[i] for i in range(n)]
    cards = uniform_cards(shape)
    trees = default_ctcs(names)
    m1 = R.build(shape, cards, names=names, ctcs=[R.ctc('c%d' % i, t) for i, t in enumerate(trees)])
    rels = R.relations_of(shape)
    rc = [math.factorial(len(cs)) - 1 for _, cs in rels]
    m2 = build_perm(shape, cards, names, rc, 1, trees, 5)
    if not (m1 == m2):
        return False
    h = hash(m1) if code else 0
    feats = [m1.root]

    def walk(f):
        for r in f.relations:
            for c in r.children:
                feats.append(c)
                walk(c)
    walk(m1.root)
    feats[pos].name = newname
    names3 = list(names)
    names3[pos] = newname
    m3 = build_perm(shape, cards, names3, rc, 1, trees, 5)
    if not (m1 == m3) or not (m3 == m1) or (m1 == m2) or (m2 == m1):
        return False
    return True


def inplace_card(shape, ri, a, b, a2, b2) -> bool:
    n = R.n_features(shape)
    names = [POOL[i] for i in range(n)]
    cards = uniform_cards(shape)
    cards[ri] = (a, b)
    m1 = R.build(shape, cards, names=names)
    rels = R.relations_of(shape)
    rc = [math.factorial(len(cs)) - 1 for _, cs in rels]
    m2 = build_perm(shape, cards, names, rc, 1, [], 0)
    if not (m1 == m2) or not (m2 == m1):
        return False
    r = _walk_rel(m1)[ri]
    r.card_min, r.card_max = a2, b2
    cards3 = list(cards)
    cards3[ri] = (a2, b2)
    m3 = build_perm(shape, cards3, names, rc, 1, [], 0)
    same = (a == a2 and b == b2)
    if not (m1 == m3) or not (m3 == m1):
        return False
    if (m1 == m2) != same:
        return False
    return True


def replay_inplace(shape, pos, newname, ri, a2, b2):
    """native: compare + hash, edit in place (rename, cardinality, add_child), compare with a rebuilt copy."""
    shape = totuple(shape)
    out = []
    try:
        if not inplace_rename(shape, pos, newname, 1):
            out.append('after an in-place rename of feature %d to %r the model differs from its rebuilt, order-permuted copy (or still equals the old one); shape %s' % (pos, newname, R.shape_str(shape)))
        k = len(R.relations_of(shape)[ri][1])
        if not inplace_card(shape, ri, 1, k if k > 1 else 1, a2, b2):
            out.append('after an in-place cardinality change of R%d to (%d,%d) the model differs from its rebuilt copy; shape %s' % (ri, a2, b2, R.shape_str(shape)))
        # hash after in-place edit
        n = R.n_features(shape)
        names = [POOL[i] for i in range(n)]
        cards = uniform_cards(shape)
        m1 = R.build(shape, cards, names=names)
        hash(m1)
        for r in _walk_rel(m1):
            hash(r)
        r = _walk_rel(m1)[ri]
        r.card_min, r.card_max = a2, b2
        cards3 = list(cards)
        cards3[ri] = (a2, b2)
        m3 = R.build(shape, cards3, names=names)
        if m1 == m3 and hash(m1) != hash(m3):
            out.append('equal models with different hashes after an in-place cardinality change')
        if r == _walk_rel(m3)[ri] and hash(r) != hash(_walk_rel(m3)[ri]):
            out.append('equal relations with different hashes after an in-place cardinality change')
    except Exception as exc:
        out.append('%s: %s' % (type(exc).__name__, exc))
    return out


def batch_inplace(max_n, lo, hi, seed):
    rnd = random.Random(seed)
    res = {'instances': 0, 'nontrivial': 0, 'violations': [], 'native_runs': 0}
    for shape in [s for s in R.shapes(max_n) if R.n_features(s) >= 2][lo:hi]:
        n = R.n_features(shape)
        rels = R.relations_of(shape)
        for pos in range(n):
            ri = rnd.randrange(len(rels))
            k = len(rels[ri][1])
            a2 = rnd.randint(0, k)
            args = [shape, pos, rnd.choice(['Zq', 'aB' if pos != 1 else 'zz', 'Q0']), ri, a2, rnd.randint(max(a2, 1), k)]
            res['instances'] += 1
            res['native_runs'] += 1
            res['nontrivial'] += 1
            bad = replay_inplace(*args)
            if bad:
                res['violations'].append({'label': 'inplace-edit', 'detail': bad[0], 'replay_func': 'replay_inplace', 'replay_args': args})
                if len(res['violations']) >= 4:
                    return res
            res['sample'] = {'shape': R.shape_str(shape), 'rename': [pos, args[2]], 'card': [ri, a2, args[5]]}
    return res


# -- structural edits (enumerated natively: they have no symbolic payload) -----------------------


def describe(shape, cards, names):
    """model description: {'names', 'rels': [(parent, [children], mn, mx)]}"""
    return {'names': list(names), 'rels': [(p, list(cs), cards[i][0], cards[i][1]) for i, (p, cs) in enumerate(R.relations_of(shape))]}


def build_desc(desc, trees=()):
    feats = [Feature(nm) for nm in desc['names']]
    for p, cs, mn, mx in desc['rels']:
        feats[p].add_relation(Relation(feats[p], [feats[c] for c in cs], mn, mx))
    return FeatureModel(feats[0], [R.ctc('c%d' % i, t) for i, t in enumerate(trees)])


def structural_edits(desc):
    """Single-point edits that keep the model a well-formed tree."""
    out = []
    rels = desc['rels']
    n = len(desc['names'])
    kids = {i: [c for p, cs, _, _ in rels if p == i for c in cs] for i in range(n)}

    def descendants(i):
        out_ = []
        for c in kids[i]:
            out_.append(c)
            out_ += descendants(c)
        return out_
    for ri, (p, cs, mn, mx) in enumerate(rels):
        if len(cs) >= 2:
            # move one child into another relation (same or other parent)
            for c in cs:
                for rj, (p2, cs2, mn2, mx2) in enumerate(rels):
                    if rj == ri or p2 == c or p2 in descendants(c):
                        continue
                    new = [list(x) for x in rels]
                    new[ri] = [p, [x for x in cs if x != c], mn, mx]
                    new[rj] = [p2, cs2 + [c], mn2, mx2]
                    out.append(('move F%d from R%d to R%d' % (c, ri, rj), {'names': desc['names'], 'rels': [tuple(x) for x in new]}))
            # split the relation: first child gets its own relation
            new = [list(x) for x in rels]
            new[ri] = [p, cs[1:], mn, mx]
            new.insert(ri, [p, [cs[0]], mn, mx])
            out.append(('split R%d' % ri, {'names': desc['names'], 'rels': [tuple(x) for x in new]}))
    # change one cardinality (every other legal pair, including '*' = -1 and upper bounds above the child count)
    for ri, (p, cs, mn, mx) in enumerate(rels):
        k = len(cs)
        for a in range(0, k + 2):
            for b in [-1] + list(range(max(a, 1), k + 3)):
                if (a, b) == (mn, mx):
                    continue
                new = [list(x) for x in rels]
                new[ri] = [p, cs, a, b]
                out.append(('cardinality of R%d [%d,%d] -> [%d,%d]' % (ri, mn, mx, a, b), {'names': desc['names'], 'rels': [tuple(x) for x in new]}))
    # merge two relations of one parent
    for ri, rj in itertools.combinations(range(len(rels)), 2):
        if rels[ri][0] == rels[rj][0]:
            new = [list(x) for i, x in enumerate(rels) if i != rj]
            idx = ri
            new[idx] = [rels[ri][0], rels[ri][1] + rels[rj][1], rels[ri][2], rels[ri][3]]
            out.append(('merge R%d and R%d' % (ri, rj), {'names': desc['names'], 'rels': [tuple(x) for x in new]}))
    return out


def ctc_edits(trees):
    out = []
    names = sorted({n for t in trees for n in R.tree_names(t)})
    for i, t in enumerate(trees):
        if isinstance(t, tuple) and len(t) == 3:
            for op in R.BIN_OPS:
                if op != t[0]:
                    e = list(trees)
                    e[i] = (op, t[1], t[2])
                    out.append(('operator of c%d -> %s' % (i, op), e))
            e = list(trees)
            e[i] = (t[0], t[2], t[1])
            if t[1] != t[2]:
                out.append(('operands of c%d swapped' % i, e))
            e = list(trees)
            e[i] = (t[0], t[1], 'Zz9')
            out.append(('operand of c%d replaced' % i, e))
    # one constraint replaced by a copy of another one (the list keeps its length; constraints form a multiset, not a set)
    for i in range(len(trees)):
        for j in range(len(trees)):
            if i != j and trees[i] != trees[j]:
                e = list(trees)
                e[i] = trees[j]
                if sorted(map(repr, e)) != sorted(map(repr, trees)):
                    out.append(('c%d replaced by a copy of c%d' % (i, j), e))
    if trees:
        out.append(('constraint dropped', list(trees[1:])))
        out.append(('constraint added', list(trees) + [('AND', 'Zz9', 'Zz8')]))
    return out


def replay_edit(desc, trees, desc2, trees2, label):
    desc = {'names': desc['names'], 'rels': [tuple([r[0], list(r[1]), r[2], r[3]]) for r in desc['rels']]}
    desc2 = {'names': desc2['names'], 'rels': [tuple([r[0], list(r[1]), r[2], r[3]]) for r in desc2['rels']]}
    trees = [totuple(t) for t in trees]
    trees2 = [totuple(t) for t in trees2]
    m1 = build_desc(desc, trees)
    m2 = build_desc(desc2, trees2)
    out = []
    try:
        if m1 == m2 or m2 == m1 or not (m1 != m2):
            out.append('models compare equal after single-point edit "%s": %r / %r' % (label, desc, trees))
    except Exception as exc:
        out.append('comparison raised %s: %s after edit "%s"' % (type(exc).__name__, exc, label))
    return out


def replay_perm(shape, name_code, rel_codes, feat_code, ctc_code, ctc_names=0):
    shape = totuple(shape)
    try:
        ok = perm_equal(shape, name_code, rel_codes, feat_code, ctc_code, True, True, ctc_names)
    except Exception as exc:
        return ['%s: %s' % (type(exc).__name__, exc)]
    if ok:
        return []
    return ['independently rebuilt, order-permuted copy is unequal or hashes differently: shape %s names-code %d rel-codes %r feature-code %d ctc-code %d'
            % (R.shape_str(shape), name_code, rel_codes, feat_code, ctc_code) + ['', ' (constraints of the copy named by position)', ' (constraints of the copy named by position, descending)'][ctc_names]]


def batch_edits(max_n, lo, hi):
    res = {'instances': 0, 'nontrivial': 0, 'violations': [], 'native_runs': 0}
    for shape in R.shapes(max_n)[lo:hi]:
        n = R.n_features(shape)
        names = ['Na', 'Nb', 'Nc', 'Nd', 'Ne', 'Nf', 'Ng'][:n]   # no two names differ by letter case only
        cards = R.default_cards(shape)
        desc = describe(shape, cards, names)
        trees = default_ctcs(names)
        cases = [(lab, d2, trees) for lab, d2 in structural_edits(desc)] + [(lab, desc, t2) for lab, t2 in ctc_edits(trees)]
        if len(names) >= 3:      # a constraint list that states one constraint twice
            dup = [('IMPLIES', names[0], names[-1]), ('IMPLIES', names[0], names[-1]), ('IMPLIES', names[1], names[-1])]
            cases += [('[duplicated constraint] ' + lab, desc, t2, dup) for lab, t2 in ctc_edits(dup)]
        for case in cases:
            lab, d2, t2 = case[0], case[1], case[2]
            t1 = case[3] if len(case) > 3 else trees
            res['instances'] += 1
            res['native_runs'] += 1
            res['nontrivial'] += 1
            bad = replay_edit(desc, t1, d2, t2, lab)
            if bad:
                res['violations'].append({'label': 'edit', 'detail': bad[0], 'replay_func': 'replay_edit', 'replay_args': [desc, t1, d2, t2, lab]})
                if len(res['violations']) >= 4:
                    return res
            res['sample'] = {'shape': R.shape_str(shape), 'edit': lab}
        continue
        for lab, d2, t2 in cases:
            res['instances'] += 1
            res['native_runs'] += 1
            res['nontrivial'] += 1
            bad = replay_edit(desc, trees, d2, t2, lab)
            if bad:
                res['violations'].append({'label': 'edit', 'detail': bad[0], 'replay_func': 'replay_edit', 'replay_args': [desc, trees, d2, t2, lab]})
                if len(res['violations']) >= 4:
                    return res
            res['sample'] = {'shape': R.shape_str(shape), 'edit': lab}
    return res


def batch_perm_native(max_n, seed, count):
    """Native validation sweep of the permutation conditions (random codes)."""
    rnd = random.Random(seed)
    res = {'instances': 0, 'nontrivial': 0, 'violations': [], 'native_runs': 0}
    shapes = [s for s in R.shapes(max_n) if R.n_features(s) >= 2]
    for _ in range(count):
        shape = rnd.choice(shapes)
        n = R.n_features(shape)
        rels = R.relations_of(shape)
        args = [shape, rnd.randrange(math.factorial(n)), [rnd.randrange(math.factorial(len(cs))) for _, cs in rels], rnd.randrange(6), rnd.randrange(6), rnd.randrange(3)]
        res['instances'] += 1
        res['native_runs'] += 1
        res['nontrivial'] += 1
        bad = replay_perm(*args)
        if bad:
            res['violations'].append({'label': 'perm', 'detail': bad[0], 'replay_func': 'replay_perm', 'replay_args': args})
            if len(res['violations']) >= 4:
                return res
        res['sample'] = {'shape': R.shape_str(shape), 'codes': args[1:]}
    return res


# -- element level -----------------------------------------------------------------------------


def element_contract(n1, n2, part) -> bool:
    f1, f2 = Feature(n1), Feature(n2)
    same = (len(n1) == len(n2) and n1 == n2)
    if part == 0:
        if (f1 == f2) != same or (f2 == f1) != same or not (f1 == f1):
            return False
        if (f1 != f2) == same:
            return False
        return not (f1 == 'P' or f1 == None)  # noqa: E711
    p = Feature('P')
    r1 = Relation(p, [f1, Feature('K')], 1, 2)
    r2 = Relation(Feature('P'), [Feature('K'), f2], 1, 2)
    if part == 1:
        if (r1 == r2) != same or (r2 == r1) != same:
            return False
        return not (r1 == 'P' or r1 == None)  # noqa: E711
    c1 = R.ctc('x', ('IMPLIES', n1, 'K'))
    c2 = R.ctc('y', ('IMPLIES', n2, 'K'))
    if same and not (c1 == c2 and c2 == c1):
        return False
    if not same and len(n1) == len(n2) and n1.lower() != n2.lower() and (c1 == c2 or c2 == c1):
        return False
    if c1 == 'P' or c1 == None:  # noqa: E711
        return False
    return True


def conditions(tier, seed):
    conds = []
    imp0 = 'from fmverif.props import c20 as P\n'
    N = 4 if tier == 'quick' else 5
    T = 40 if tier == 'quick' else 150
    L = 2 if tier == 'quick' else 3
    for part, what in enumerate(['Feature', 'Relation', 'Constraint']):
        conds.append(Cond(
            name='c20_elem_%d' % part, imports=imp0, params='n1: str, n2: str', pre=['1 <= len(n1) <= %d' % L, '1 <= len(n2) <= %d' % L,
                                                                                   "all(c not in n1 and c not in n2 for c in ('[', ']', chr(34), '.', chr(39)))"],
            body='P.element_contract(n1, n2, %d)' % part, timeout=T, aspect='==/!= of %s on symbolic names' % what,
            sample={'symbolic': 'two names'}, validate=[('A', 'A'), ('A', 'a'), ('ab', 'b')]))
    todo = indexed_shapes(N, 2)
    if N < 5:   # sibling groups under one parent need five features
        todo += [(si, sh) for si, sh in indexed_shapes(5, 5) if any(sum(1 for r in R.rels_by_parent(sh)[p] if len(R.relations_of(sh)[r][1]) > 1) > 1 for p in range(5))]
    for si, shape in todo:
        n = R.n_features(shape)
        rels = R.relations_of(shape)
        imp = imp0 + 'SHAPE_%d = %r\n' % (si, shape)
        # permutations: names | children, relations, constraints (two conditions, see DESIGN 3 'one payload category')
        maxr = [math.factorial(len(cs)) - 1 for _, cs in rels]
        conds.append(Cond(name='c20_names_%d' % si, imports=imp, params='nc: int', pre=['0 <= nc < %d' % math.factorial(n)],
                          body='P.perm_equal(SHAPE_%d, nc, %r, 1, 5, True)' % (si, maxr), timeout=T,
                          aspect='reversed rebuilt copy is equal and hashes equally for every assignment of names (symbolic permutation of the pool)',
                          sample={'shape': R.shape_str(shape), 'symbolic': 'Lehmer code of the name assignment'}, validate=[(0,), (math.factorial(n) - 1,)]))
        rp = ', '.join('r%d: int' % i for i in range(len(rels)))
        params = rp + ', fc: int, cc: int, cn: int'
        pre = ['0 <= r%d < %d' % (i, math.factorial(len(cs))) for i, (p, cs) in enumerate(rels)] + ['0 <= fc < 2', '0 <= cc < 6', '0 <= cn < 3']
        rcodes = '[' + ', '.join('r%d' % i for i in range(len(rels))) + ']'
        nc_fixed = (math.factorial(n) * 3) // 7
        val = [tuple([0] * len(rels) + [0, 0, 0]), tuple(maxr + [1, 5, 1]), tuple(maxr + [0, 3, 2])]
        conds.append(Cond(name='c20_order_%d' % si, imports=imp, params=params, pre=pre,
                          body='P.perm_equal(SHAPE_%d, %d, %s, fc, cc, True, True, cn)' % (si, nc_fixed, rcodes), timeout=T,
                          aspect='rebuilt copy with symbolic order of children / relations / constraints (constraint names kept or assigned by position) is equal and hashes equally',
                          sample={'shape': R.shape_str(shape), 'symbolic': 'Lehmer codes of every child list, relation list, constraint list; naming mode of the copied constraints'}, validate=val))
        cp, cpre, cexpr = cards_params(shape, allow_zero_max=True)
        conds.append(Cond(name='c20_cards_%d' % si, imports=imp, params=cp, pre=cpre,
                          body='P.perm_equal_cards(SHAPE_%d, %s)' % (si, cexpr), timeout=T,
                          aspect='reversed rebuilt copy is equal for all cardinalities', sample={'shape': R.shape_str(shape), 'symbolic': 'all (min,max)'},
                          validate=[tuple(x for c in R.default_cards(shape) for x in c)]))
        pos = (si + seed) % n
        conds.append(Cond(name='c20_ren_%d' % si, imports=imp, params='name: str',
                          pre=['1 <= len(name) <= %d' % L, 'all(len(name) != len(o) or name != o for o in %r)' % (POOL[:n],),
                               "all(c not in name for c in ('[', ']', chr(34), '.', chr(39)))"],
                          body='P.rename_differs(SHAPE_%d, %d, name)' % (si, pos), timeout=T,
                          aspect='rename => unequal', sample={'shape': R.shape_str(shape), 'symbolic': 'new name of feature %d' % pos},
                          validate=[('zz',), ('ab',), ('AB',)]))
        conds.append(Cond(name='c20_iren_%d' % si, imports=imp, params='name: str',
                          pre=['1 <= len(name) <= %d' % L, 'all(len(name) != len(o) or name != o for o in %r)' % (POOL[:n],),
                               "all(c not in name for c in ('[', ']', chr(34), '.', chr(39)))"],
                          body='P.inplace_rename(SHAPE_%d, %d, name, 0)' % (si, pos), timeout=T,
                          aspect='compare, rename in place, compare with rebuilt copy', sample={'shape': R.shape_str(shape), 'symbolic': 'new name of feature %d' % pos},
                          validate=[('zz',), ('AB',)]))
        ri = (si + seed) % len(rels)
        k = len(rels[ri][1])
        conds.append(Cond(name='c20_icard_%d' % si, imports=imp, params='a: int, b: int, a2: int, b2: int',
                          pre=['0 <= a <= %d' % (k + 2), 'a <= b <= %d or b == -1' % (k + 2), '0 <= a2 <= %d' % (k + 2), 'a2 <= b2 <= %d or b2 == -1' % (k + 2)],
                          body='P.inplace_card(SHAPE_%d, %d, a, b, a2, b2)' % (si, ri), timeout=T,
                          aspect='compare, change one cardinality in place, compare with rebuilt copy', sample={'shape': R.shape_str(shape), 'symbolic': 'old and new cardinality of R%d' % ri},
                          validate=[(0, 1, 1, 1), (1, 1, 1, 1), (1, k, 1, -1), (1, k, 1, k + 1)]))
        conds.append(Cond(name='c20_card_%d' % si, imports=imp, params='a: int, b: int, a2: int, b2: int',
                          pre=['0 <= a <= %d' % (k + 2), 'a <= b <= %d or b == -1' % (k + 2), '0 <= a2 <= %d' % (k + 2), 'a2 <= b2 <= %d or b2 == -1' % (k + 2)],
                          body='P.card_differs(SHAPE_%d, %d, a, b, a2, b2)' % (si, ri), timeout=T,
                          aspect='one cardinality changed => unequal (and equal otherwise); upper bound may be * (-1) or exceed the number of children', sample={'shape': R.shape_str(shape), 'symbolic': 'both cardinality pairs of R%d' % ri},
                          validate=[(0, 1, 1, 1), (1, 1, 1, 1), (1, k, 1, -1), (1, k + 1, 1, k + 2), (1, k, 1, k + 1)]))
    return conds


def batches(tier, seed):
    N = 5 if tier == 'quick' else 6
    total = len(R.shapes(N))
    step = total // 12 + 1
    b = [('batch_edits', [N, lo, lo + step]) for lo in range(0, total, step)]
    b += [('batch_inplace', [N, lo, lo + step, seed + lo]) for lo in range(0, total, step)]
    b += [('batch_perm_native', [N, seed * 31 + i, 150 if tier == 'quick' else 1500]) for i in range(4)]
    return b


def info(tier):
    return {
        'assumptions': ['feature names within a model are unique; names in the permutation conditions are a symbolic permutation of a fixed pool that contains case variants',
                        'constraints of the permuted copy keep their names, or are named by their new position (ascending / descending) as the positional readers do; the positional modes are asserted only while Constraint.__eq__ itself ignores names (checked on every run)',
                        'hash() is only evaluated with concrete names and cardinalities (hashing a symbolic value enumerates)',
                        'structural single-point edits (move, split, merge, constraint operator/operand) have no symbolic payload: they are enumerated natively for every shape and counted as such',
                        'names are restricted to characters that cannot fake the str(Relation) layout: no [ ] . quotes'],
        'coverage': {'functions_encoded': ['Feature.__eq__/__hash__/__lt__', 'Relation.__eq__/__hash__/__lt__/__str__', 'Constraint.__eq__/__hash__/__lt__', 'FeatureModel.__eq__/__hash__/get_features/get_relations'],
                     'bounds': {'shapes': 'N<=%d (E1), N<=%d (native edits)' % (4 if tier == 'quick' else 5, 5 if tier == 'quick' else 6), 'name_len': 2 if tier == 'quick' else 3},
                     'stubs': []},
    }
