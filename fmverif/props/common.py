"""Helpers shared by the per-property generators."""
from __future__ import annotations

from .. import refsem as R
from ..runner import Cond


def totuple(t):
    if isinstance(t, list):
        return tuple(totuple(x) for x in t)
    return t


def cards_params(shape, allow_zero_max=False, star=False):
    """(params, pre, cards_expr) for one symbolic (min,max) pair per relation."""
    rels = R.relations_of(shape)
    params = ', '.join('a%d: int, b%d: int' % (i, i) for i in range(len(rels)))
    pre = []
    for i, (p, cs) in enumerate(rels):
        k = len(cs)
        if star and (star != 'groups' or k > 1):
            pre.append('0 <= a%d <= %d and ((a%d <= b%d <= %d and b%d >= 1) or b%d == -1)' % (i, k, i, i, k, i, i))
        else:
            pre.append('0 <= a%d <= b%d <= %d' % (i, i, k) + ('' if allow_zero_max else ' and b%d >= 1' % i))
    cards = '[' + ', '.join('(a%d, b%d)' % (i, i) for i in range(len(rels))) + ']'
    return params, pre, cards


def cards_conditions(prefix, modalias, func, shape_list, timeout, aspect, allow_zero_max=False, extra_validate=None,
                     extra_args='', flags=False):
    """One condition per shape (with >= 1 relation): all cardinalities symbolic.
    flags: additionally one symbolic Boolean per feature = its abstract marker (passed as abstract=[...])."""
    conds = []
    for si, shape in shape_list:
        rels = R.relations_of(shape)
        if not rels:
            continue
        params, pre, cards = cards_params(shape, allow_zero_max)
        imp = 'from fmverif.props import %s as P\nSHAPE_%d = %r\n' % (modalias, si, shape)
        val = [tuple(x for c in R.default_cards(shape) for x in c)]
        val.append(tuple(x for (p, cs) in rels for x in (len(cs), len(cs))))
        val.append(tuple(x for (p, cs) in rels for x in (0, len(cs))))
        xargs = extra_args
        symbolic = 'all (min,max) pairs'
        if flags:
            n = R.n_features(shape)
            params += ', ' + ', '.join('g%d: bool' % i for i in range(n))
            xargs += ', abstract=[%s]' % ', '.join('g%d' % i for i in range(n))
            pats = [tuple(False for i in range(n)), tuple(i % 2 == 0 for i in range(n)), tuple(True for i in range(n))]
            val = [v + pats[j % 3] for j, v in enumerate(val)] + [val[0] + pats[2], val[1] + pats[0]]
            symbolic += ', the abstract marker of every feature'
        conds.append(Cond(
            name='%s_%d' % (prefix, si), imports=imp, params=params, pre=pre,
            body='P.%s(SHAPE_%d, %s%s)' % (func, si, cards, xargs), timeout=timeout, aspect=aspect,
            sample={'shape': R.shape_str(shape), 'symbolic': symbolic, 'relations': len(rels)},
            validate=val))
    return conds


SIBLING_GROUPS = [(((), ()), ((), ())),            # two groups of two under the root
                  (((((), ()), ((), ())),),)]        # ... under an inner feature


def indexed_shapes(max_n, min_n=1, siblings=True):
    """all shapes with min_n..max_n features; below 5 features the two shapes with two sibling
    groups under one parent are added (several defects need two same-kind groups side by side)."""
    out = list(enumerate(R.shapes(max_n, min_n)))
    if siblings and max_n < 5:
        out.append((900, SIBLING_GROUPS[0]))
    if siblings and max_n < 6:
        out.append((901, SIBLING_GROUPS[1]))
    return out


def small_ctc_sets(names, depth=1, max_pairs=True):
    """Constraint lists used by the E2 batches: every single tree of the given depth over `names`."""
    trees = R.logical_trees(names, depth)
    return [[t] for t in trees if not isinstance(t, str)]


def pair_batch(modname, funcname, max_n, lo, hi, seed, label):
    """History of two models in one process, each checked against its definition: for ordered pairs
    (A, B) of shapes run func(A), func(B), func(A) - a process-wide cache keyed by feature name (all
    models use the names F0..Fn in preorder) shows up as a wrong second or third result."""
    import importlib
    import random
    rnd = random.Random(seed)
    mod = importlib.import_module(modname)
    shapes = R.shapes(max_n)
    pairs = [(a, b) for a in shapes for b in shapes if a != b][lo:hi]
    res = {'instances': 0, 'nontrivial': 0, 'violations': [], 'native_runs': 0}
    for a, b in pairs:
        ca = rnd.choice(list(R.all_cards(a))) if R.relations_of(a) else []
        cb = rnd.choice(list(R.all_cards(b))) if R.relations_of(b) else []
        res['instances'] += 1
        res['native_runs'] += 3
        res['nontrivial'] += 1
        bad = replay_pair(modname, funcname, a, ca, b, cb)
        if bad:
            res['violations'].append({'label': label, 'detail': bad[0], 'replay_func': 'replay_pair',
                                      'replay_args': [modname, funcname, a, ca, b, cb]})
            if len(res['violations']) >= 4:
                return res
        res['sample'] = {'first': R.shape_str(a), 'second': R.shape_str(b), 'cards': [ca, cb]}
    return res


def replay_pair(modname, funcname, a, ca, b, cb):
    import importlib
    mod = importlib.import_module(modname)
    fn = getattr(mod, funcname)
    a, b = totuple(a), totuple(b)
    ca, cb = [tuple(c) for c in ca], [tuple(c) for c in cb]
    out = []
    for step, (sh, cd) in enumerate([(a, ca), (b, cb), (a, ca)]):
        try:
            ok = fn(sh, cd)
        except Exception as exc:
            ok = False
            out.append('step %d raises %s: %s' % (step, type(exc).__name__, exc))
        if not ok:
            out.append('analysing %s %r, then %s %r, then the first again: step %d (%s) disagrees with its definition'
                       % (R.shape_str(a), ca, R.shape_str(b), cb, step, funcname))
            break
    return out


def _same_result(a, b) -> bool:
    """structural equality of two operation results (features by identity)."""
    if isinstance(a, dict):
        if not isinstance(b, dict) or len(a) != len(b):
            return False
        ka, kb = list(a.keys()), list(b.keys())
        for x, y in zip(ka, kb):
            if x is not y and x != y:
                return False
            if not _same_result(a[x], b[y]):
                return False
        return True
    if isinstance(a, (list, tuple, set, frozenset)):
        if not isinstance(b, (list, tuple, set, frozenset)) or len(a) != len(b):
            return False
        if isinstance(a, (set, frozenset)):
            return sorted(id(x) for x in a) == sorted(id(x) for x in b)
        return all(_same_result(x, y) for x, y in zip(a, b))
    if hasattr(a, 'relations') and hasattr(a, 'name'):
        return a is b
    return a == b


def result_twice(op, m):
    """Execute the operation object on another model first, then twice on the model, and return the result of the *second* execution;
    the first must have been the same (an operation object may be re-used: its result depends on the model
    of the current execution only). Callers compare the returned value with the definition."""
    import copy
    # history: the operation object has analysed ANOTHER model before (same feature names F0.., other tree);
    # nothing of that execution may survive into the results below
    try:
        op.execute(R.build((((), ()), ()), [(1, 2), (0, 1)])).get_result()
    except Exception:  # the primer is not the subject (e.g. an operation configured with a feature of m)
        pass
    r1 = op.execute(m).get_result()
    keep = copy.copy(r1) if isinstance(r1, (list, dict, set)) else r1
    if isinstance(r1, list):
        keep = [copy.copy(x) if isinstance(x, (list, set, dict)) else x for x in r1]
    r2 = op.execute(m).get_result()
    if not _same_result(keep, r2):
        raise AssertionError('%s: the second execution of the same operation object on the same model returns another result' % type(op).__name__)
    return r2


def zero_group_cards(shape):
    """cardinality vectors with one group relation set to [0..0] (legal: no member may be selected)."""
    out = []
    rels = R.relations_of(shape)
    for ri, (p, cs) in enumerate(rels):
        if len(cs) > 1:
            c = R.default_cards(shape)
            c[ri] = (0, 0)
            out.append(c)
    return out
