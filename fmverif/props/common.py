"""Helpers shared by the per-property generators."""
from __future__ import annotations

from .. import refsem as R
from ..runner import Cond


def totuple(t):
    if isinstance(t, list):
        return tuple(totuple(x) for x in t)
    return t


def cards_params(shape, allow_zero_max=False, star=False):
    """(params, pre, cards_expr) for one symbolic (min,max) pair per relation."""
    rels = R.relations_of(shape)
    params = ', '.join('a%d: int, b%d: int' % (i, i) for i in range(len(rels)))
    pre = []
    for i, (p, cs) in enumerate(rels):
        k = len(cs)
        if star:
            pre.append('0 <= a%d <= %d and ((a%d <= b%d <= %d and b%d >= 1) or b%d == -1)' % (i, k, i, i, k, i, i))
        else:
            pre.append('0 <= a%d <= b%d <= %d' % (i, i, k) + ('' if allow_zero_max else ' and b%d >= 1' % i))
    cards = '[' + ', '.join('(a%d, b%d)' % (i, i) for i in range(len(rels))) + ']'
    return params, pre, cards


def cards_conditions(prefix, modalias, func, shape_list, timeout, aspect, allow_zero_max=False, extra_validate=None,
                     extra_args=''):
    """One condition per shape (with >= 1 relation): all cardinalities symbolic."""
    conds = []
    for si, shape in shape_list:
        rels = R.relations_of(shape)
        if not rels:
            continue
        params, pre, cards = cards_params(shape, allow_zero_max)
        imp = 'from fmverif.props import %s as P\nSHAPE_%d = %r\n' % (modalias, si, shape)
        val = [tuple(x for c in R.default_cards(shape) for x in c)]
        val.append(tuple(x for (p, cs) in rels for x in (len(cs), len(cs))))
        val.append(tuple(x for (p, cs) in rels for x in (0, len(cs))))
        conds.append(Cond(
            name='%s_%d' % (prefix, si), imports=imp, params=params, pre=pre,
            body='P.%s(SHAPE_%d, %s%s)' % (func, si, cards, extra_args), timeout=timeout, aspect=aspect,
            sample={'shape': R.shape_str(shape), 'symbolic': 'all (min,max) pairs', 'relations': len(rels)},
            validate=val))
    return conds


def indexed_shapes(max_n, min_n=1):
    return list(enumerate(R.shapes(max_n, min_n)))


def small_ctc_sets(names, depth=1, max_pairs=True):
    """Constraint lists used by the E2 batches: every single tree of the given depth over `names`."""
    trees = R.logical_trees(names, depth)
    return [[t] for t in trees if not isinstance(t, str)]
