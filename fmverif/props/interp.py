"""Independent interpreters of the exported text formats (SXFM / .exp / Clafer subset) into z3.

Written from the formats' own definitions; they share no code with /repo.  Each returns
(formula, {identifier: z3 Bool}) or raises FormatError when the text is outside the format.
"""
from __future__ import annotations

import re


class FormatError(Exception):
    pass


# ---------------------------------------------------------------------------------------------
# SXFM (SPLOT)

_SX_FEATURE = re.compile(r'^(\t*):([rmo]?)\s*(.*?)\s*\(([^()]*)\)\s*$')
_SX_GROUP = re.compile(r'^(\t*):g\s*(?:\([^()]*\)\s*)?\[\s*(\d+)\s*,\s*(\d+|\*)\s*\]\s*$')


def sxfm2z3(text, z3, ctx):
    lines = text.split('\n')
    try:
        i0 = lines.index('<feature_tree>')
        i1 = lines.index('</feature_tree>')
        c0 = lines.index('<constraints>')
        c1 = lines.index('</constraints>')
    except ValueError:
        raise FormatError('missing sections')
    var = {}
    cons = []
    stack = []   # (depth, kind, data) kind: 'f' feature id | 'g' group dict
    groups = []
    for ln in lines[i0 + 1:i1]:
        if not ln.strip():
            continue
        mg = _SX_GROUP.match(ln)
        mf = _SX_FEATURE.match(ln)
        if mg:
            depth = len(mg.group(1))
            while stack and stack[-1][0] >= depth:
                stack.pop()
            if not stack or stack[-1][1] != 'f':
                raise FormatError('group without parent feature: %r' % ln)
            g = {'parent': stack[-1][2], 'min': int(mg.group(2)), 'max': mg.group(3), 'children': []}
            groups.append(g)
            stack.append((depth, 'g', g))
        elif mf:
            depth = len(mf.group(1))
            kind = mf.group(2)
            fid = mf.group(4)
            if fid in var:
                raise FormatError('duplicate id %r' % fid)
            var[fid] = z3.Bool('s_' + fid, ctx)
            while stack and stack[-1][0] >= depth:
                stack.pop()
            if kind == 'r':
                if stack:
                    raise FormatError('root not at top')
                cons.append(var[fid])
            else:
                if not stack:
                    raise FormatError('feature without parent: %r' % ln)
                pk = stack[-1]
                if kind == '':
                    if pk[1] != 'g':
                        raise FormatError('grouped feature outside a group: %r' % ln)
                    pk[2]['children'].append(fid)
                    cons.append(z3.Implies(var[fid], var[pk[2]['parent']], ctx))
                else:
                    if pk[1] != 'f':
                        raise FormatError(':m/:o directly under a group: %r' % ln)
                    par = var[pk[2]]
                    cons.append(z3.Implies(var[fid], par, ctx))
                    if kind == 'm':
                        cons.append(z3.Implies(par, var[fid], ctx))
            stack.append((depth, 'f', fid))
        else:
            raise FormatError('unreadable tree line %r' % ln)
    for g in groups:
        if not g['children']:
            raise FormatError('empty group')
        s = z3.Sum([z3.If(var[c], z3.IntVal(1, ctx), z3.IntVal(0, ctx), ctx) for c in g['children']]) if len(g['children']) > 1 \
            else z3.If(var[g['children'][0]], z3.IntVal(1, ctx), z3.IntVal(0, ctx), ctx)
        b = [s >= g['min']]
        if g['max'] != '*':
            b.append(s <= int(g['max']))
        cons.append(z3.Implies(var[g['parent']], z3.And(b, ctx) if len(b) > 1 else b[0], ctx))
    for ln in lines[c0 + 1:c1]:
        if not ln.strip():
            continue
        m = re.match(r'^\s*[^:\s]+\s*:\s*(.*)$', ln)
        if not m:
            raise FormatError('unreadable constraint line %r' % ln)
        lits = []
        for tok in re.split(r'\s+or\s+', m.group(1).strip()):
            tok = tok.strip()
            neg = tok.startswith('~')
            name = tok[1:].strip() if neg else tok
            if name not in var:
                raise FormatError('constraint uses unknown id %r' % name)
            lits.append(z3.Not(var[name], ctx) if neg else var[name])
        cons.append(z3.Or(lits, ctx) if len(lits) > 1 else lits[0])
    return z3.And(cons, ctx), var


# ---------------------------------------------------------------------------------------------
# propositional expressions (.exp of Logic2BDD): not > and > or / xor > -> > <->

_TOK = re.compile(r'\s*(<->|->|\(|\)|"[^"]*"|[^\s()]+)')


def _tokens(s):
    out = []
    pos = 0
    s = s.strip()
    while pos < len(s):
        m = _TOK.match(s, pos)
        if not m:
            raise FormatError('cannot tokenise %r' % s[pos:])
        out.append(m.group(1))
        pos = m.end()
    return out


class _ExpParser:
    def __init__(self, toks, z3, ctx, var, ops, spell=None):
        self.t, self.i, self.z3, self.ctx, self.var, self.ops = toks, 0, z3, ctx, var, ops
        self.spell = spell      # identifier -> the spelling (quoted or bare) of its declaration

    def peek(self):
        return self.t[self.i] if self.i < len(self.t) else None

    def eat(self, tok=None):
        v = self.peek()
        if v is None or (tok is not None and v != tok):
            raise FormatError('expected %r, got %r' % (tok, v))
        self.i += 1
        return v

    def iff(self):
        l = self.imp()
        while self.peek() == self.ops['iff']:
            self.eat()
            r = self.imp()
            l = (l == r)
        return l

    def imp(self):
        l = self.orx()
        if self.peek() == self.ops['imp']:
            self.eat()
            r = self.imp()
            return self.z3.Implies(l, r, self.ctx)
        return l

    def orx(self):
        l = self.andx()
        while self.peek() in (self.ops['or'], self.ops['xor']):
            op = self.eat()
            r = self.andx()
            l = self.z3.Or(l, r, self.ctx) if op == self.ops['or'] else self.z3.Xor(l, r, self.ctx)
        return l

    def andx(self):
        l = self.unary()
        while self.peek() == self.ops['and']:
            self.eat()
            r = self.unary()
            l = self.z3.And(l, r, self.ctx)
        return l

    def unary(self):
        v = self.peek()
        if v == self.ops['not']:
            self.eat()
            return self.z3.Not(self.unary(), self.ctx)
        if v == '(':
            self.eat()
            e = self.iff()
            self.eat(')')
            return e
        if v is None or v in (')',) or v in self.ops.values():
            raise FormatError('unexpected token %r' % v)
        self.eat()
        name = v[1:-1] if v.startswith('"') and v.endswith('"') and len(v) >= 2 else v
        if self.var is not None and name not in self.var:
            raise FormatError('unknown identifier %r' % name)
        if self.spell is not None and name in self.spell and self.spell[name] != v:
            raise FormatError('identifier used as %s but declared as %s' % (v, self.spell[name]))
        if name not in self.var:
            self.var[name] = self.z3.Bool('e_' + name, self.ctx)
        return self.var[name]


EXP_OPS = {'not': 'not', 'and': 'and', 'or': 'or', 'imp': '->', 'iff': '<->', 'xor': 'XOR'}
CLAFER_OPS = {'not': 'not', 'and': '&&', 'or': '||', 'imp': '=>', 'iff': '<=>', 'xor': 'xor'}


def parse_expr(s, z3, ctx, var, ops, spell=None):
    p = _ExpParser(_tokens(s), z3, ctx, var, ops, spell)
    e = p.iff()
    if p.peek() is not None:
        raise FormatError('trailing tokens in %r' % s)
    return e


def exp2z3(text, names, z3, ctx):
    """names: the identifiers that may occur (feature names)."""
    var = {n: z3.Bool('e_' + n, ctx) for n in names}
    cons = []
    for ln in text.split('\n'):
        if not ln.strip():
            continue
        cons.append(parse_expr(ln, z3, ctx, var, EXP_OPS))
    return z3.And(cons, ctx), var


# ---------------------------------------------------------------------------------------------
# Clafer subset

_CL = re.compile(r'^(\t*)(?:(abstract)\s+)?(?:(xor|or|mux|\d+\.\.(?:\d+|\*))\s+)?("[^"]*"|[^\s:?\[\]]+)(\s*:\s*\S+)?(\s*\?)?\s*$')


def clafer2z3(text, z3, ctx):
    """returns (formula, var, info) info: declared attribute names, used attribute names, features."""
    var = {}
    cons = []
    feats = []      # (depth, name, group, optional)
    info = {'attr_declared': [], 'attr_used': [], 'features': [], 'instance': None, 'attr_types': {}}
    spell = {}
    lines = text.split('\n')
    i = 0
    in_attr = False
    stack = []
    kids = {}
    group = {}
    root = None
    constraints = []
    for ln in lines:
        if not ln.strip():
            in_attr = False
            continue
        s = ln.strip()
        if s.startswith('[') and s.endswith(']'):
            depth = len(ln) - len(ln.lstrip('\t'))
            body = s[1:-1].strip()
            m = re.match(r'^("[^"]*"|\S+)\s*=\s*(.*)$', body)
            if depth > 0 and m and stack:
                info['attr_used'].append((m.group(1), m.group(2)))
                continue
            constraints.append(body)
            continue
        if s == 'abstract AttributedFeature':
            in_attr = True
            continue
        if in_attr and ln.startswith('\t') and '->' in s:
            nm, ty = [x.strip() for x in s.split('->', 1)]
            info['attr_declared'].append(nm)
            info['attr_types'][nm] = ty
            continue
        in_attr = False
        mi = re.match(r'^(\S+)\s*:\s*("[^"]*"|\S+)\s*$', s)
        m = _CL.match(ln)
        if ln[0] != '\t' and mi and not s.startswith('abstract') and m and m.group(5) and root is not None:
            info['instance'] = (mi.group(1), mi.group(2))
            continue
        if not m:
            raise FormatError('unreadable clafer line %r' % ln)
        depth = len(m.group(1))
        name = m.group(4)
        key = name[1:-1] if name.startswith('"') else name
        if key in var:
            raise FormatError('duplicate clafer %r' % key)
        var[key] = z3.Bool('c_' + key, ctx)
        spell[key] = name
        info['features'].append(name)
        while stack and stack[-1][0] >= depth:
            stack.pop()
        if not stack:
            if root is not None:
                raise FormatError('two top-level clafers')
            if not m.group(2):
                raise FormatError('top-level clafer is not abstract')
            root = key
        else:
            kids.setdefault(stack[-1][1], []).append((key, bool(m.group(6))))
        group[key] = m.group(3)
        kids.setdefault(key, [])
        stack.append((depth, key))
    if root is None:
        raise FormatError('no clafer')
    if info['instance'] is None:
        raise FormatError('no instance of the root')
    inst_of = info['instance'][1]
    inst_key = inst_of[1:-1] if inst_of.startswith('"') else inst_of
    if inst_key != root:
        raise FormatError('instance of %r, root is %r' % (inst_key, root))
    if inst_of != spell[root]:
        raise FormatError('instance of %s but the root is declared as %s' % (inst_of, spell[root]))
    cons.append(var[root])
    for p, ch in kids.items():
        for c, opt in ch:
            cons.append(z3.Implies(var[c], var[p], ctx))
        if not ch:
            continue
        g = group[p]
        if g is None:
            for c, opt in ch:
                if not opt:
                    cons.append(z3.Implies(var[p], var[c], ctx))
        else:
            k = len(ch)
            if g == 'xor':
                lo, hi = 1, 1
            elif g == 'or':
                lo, hi = 1, k
            elif g == 'mux':
                lo, hi = 0, 1
            else:
                a, b = g.split('..')
                lo, hi = int(a), (k if b == '*' else int(b))
            s = z3.Sum([z3.If(var[c], z3.IntVal(1, ctx), z3.IntVal(0, ctx), ctx) for c, _ in ch]) if k > 1 else \
                z3.If(var[ch[0][0]], z3.IntVal(1, ctx), z3.IntVal(0, ctx), ctx)
            cons.append(z3.Implies(var[p], z3.And(s >= lo, s <= hi, ctx), ctx))
    for body in constraints:
        cons.append(parse_expr(body, z3, ctx, var, CLAFER_OPS, spell))
    return z3.And(cons, ctx), var, info
