"""Larger inputs for the operation properties (C13-C17): random tree shapes beyond the exhaustive bound and the
FaMa / Betty corpus shipped under resources/models (up to 20000 features).

These are concrete runs of the real code compared with the same definitions / closed forms the symbolic
conditions use; they are counted as native runs in the evidence, never as solver verdicts."""
from __future__ import annotations

import glob
import os
import random

from flamapy.metamodels.fm_metamodel.transformations import XMLReader

from .. import refsem as R


def random_shape(rnd, n):
    """random rooted tree with n features; the children of every feature are split at random into relations."""
    kids = {0: []}
    for i in range(1, n):
        p = rnd.randrange(i) if rnd.random() < 0.6 else max(0, i - 1 - rnd.randrange(min(i, 3)))
        kids.setdefault(p, []).append(i)
        kids.setdefault(i, [])

    def sub(i):
        cs = kids[i]
        rels = []
        j = 0
        while j < len(cs):
            w = 1 if rnd.random() < 0.5 else rnd.randint(2, 4)
            rels.append(tuple(sub(c) for c in cs[j:j + w]))
            j += w
        return tuple(rels)
    return sub(0)


def random_cards(rnd, shape, star=False):
    out = []
    for p, cs in R.relations_of(shape):
        k = len(cs)
        a = rnd.randint(0, k)
        b = rnd.randint(max(a, 1), k)
        r = rnd.random()
        if k == 1:
            a, b = ((1, 1) if r < 0.5 else (0, 1))
        elif r < 0.25:
            a, b = 1, 1
        elif r < 0.5:
            a, b = 1, k
        elif r < 0.6:
            a, b = 0, 1
        elif r < 0.7:
            a, b = k, k
        out.append((a, b))
    return out


def model_shape(m):
    """(shape, cards, names, abstract) of a model by attribute walk, numbered like R.relations_of / _index."""
    import sys
    sys.setrecursionlimit(max(sys.getrecursionlimit(), 100000))
    cards = []
    names = []
    abstract = []

    def rec(f):
        names.append(f.name)
        abstract.append(bool(f.is_abstract))
        rels = []
        for r in f.relations:
            cards.append((r.card_min, r.card_max))
            rels.append(tuple(rec(c) for c in r.children))
        return tuple(rels)
    shape = rec(m.root)
    return shape, cards, names, abstract


def corpus_files(count, max_bytes, seed=0):
    root = os.environ.get('FMV_REPO', '/repo') + '/resources/models'
    files = sorted(glob.glob(root + '/**/*.xml', recursive=True), key=lambda p: (os.path.getsize(p), p))
    files = [p for p in files if os.path.getsize(p) <= max_bytes]
    if count >= len(files):
        return files
    step = len(files) / float(count)
    return [files[int(i * step)] for i in range(count)]


def read_corpus(path):
    return XMLReader(path).transform()


def batch_models(modname, funcname, label, kind, seed, count, lo_n=6, hi_n=12, max_bytes=60000, part=0, parts=1):
    """func(shape, cards, m) -> list of problems, on random larger shapes (kind='random', m built through the
    public constructors) or on corpus files (kind='corpus', m as returned by the FaMa reader)."""
    import importlib
    fn = getattr(importlib.import_module(modname), funcname)
    rnd = random.Random(seed)
    res = {'instances': 0, 'nontrivial': 0, 'violations': [], 'native_runs': 0}
    if kind == 'case':
        # every shape up to hi_n features, sampled cardinalities, names that differ by letter case only (parent / child,
        # siblings, cousins): Feature equality and hashing are by name, an implementation that folds case merges features
        cases = []
        for shape in R.shapes(hi_n, 2):
            allc = list(R.all_cards(shape))
            for cards in (allc if len(allc) <= count else rnd.sample(allc, count)):
                cases.append(('case', shape, cards, rnd.randrange(len(CASE_NAMES))))
    elif kind == 'random':
        cases = []
        for _ in range(count):
            shape = random_shape(rnd, rnd.randint(lo_n, hi_n))
            cases.append(('random', shape, random_cards(rnd, shape)))
    else:
        cases = [('file', p, None) for p in corpus_files(count, max_bytes, seed)][part::parts]
    for case in cases:
        tag, a, b = case[0], case[1], case[2]
        res['instances'] += 1
        res['native_runs'] += 1
        res['nontrivial'] += 1
        args = [tag, a, b] + list(case[3:])
        bad = replay_model(modname, funcname, *args)
        if bad:
            res['violations'].append({'label': label, 'detail': bad[0][:600], 'replay_module': __name__, 'replay_func': 'replay_model',
                                      'replay_args': [modname, funcname] + args})
            if len(res['violations']) >= 4:
                break
        res['sample'] = {'kind': kind, 'case': (a if tag == 'file' else R.shape_str(a)[:120])}
    return res


CASE_NAMES = [['App', 'app', 'APP', 'aPP', 'Cache', 'cache', 'CACHE'], ['Cache', 'Log', 'cache', 'log', 'CACHE', 'LOG', 'cAche'],
              ['x', 'Y', 'X', 'y', 'xx', 'XX', 'xX'], ['Ünit', 'ünit', 'ÜNIT', 'Strasse', 'STRASSE', 'Straße', 'strasse']]


def replay_model(modname, funcname, tag, a, b, name_set=0):
    import importlib
    fn = getattr(importlib.import_module(modname), funcname)
    try:
        if tag == 'file':
            m = read_corpus(a)
            shape, cards, names, abstract = model_shape(m)
            where = a
        else:
            from .common import totuple
            shape = totuple(a)
            cards = [tuple(c) for c in b]
            if tag == 'case':
                nm = CASE_NAMES[name_set][:R.n_features(shape)]
                m = R.build(shape, cards, names=nm)
                where = 'shape %s cards %r names %r' % (R.shape_str(shape), cards, nm)
            else:
                m = R.build(shape, cards)
                where = 'shape %s cards %r' % (R.shape_str(shape), cards)
        bad = fn(shape, cards, m)
    except Exception as exc:
        return ['%s.%s raises %s: %s on %s' % (modname.split('.')[-1], funcname, type(exc).__name__, exc, str(a)[:200])]
    return ['%s | %s' % (x, where[:300]) for x in bad]
