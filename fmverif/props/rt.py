"""Shared machinery for the round-trip properties (C01, C05, C06, C07, C08)."""
from __future__ import annotations

import functools
import os
import shutil
import tempfile

from flamapy.core.models.ast import AST, Node, ASTOperation
from flamapy.metamodels.fm_metamodel.models import (
    FeatureModel, Feature, Relation, Constraint, Attribute, Domain, Range, Cardinality, FeatureType)

from .. import refsem as R

try:
    from crosshair.tracers import NoTracing
except Exception:  # pragma: no cover
    import contextlib
    NoTracing = contextlib.nullcontext


# -- name-free skeletons of constraints and solver equivalence -----------------------------------

def same_str(a, b) -> bool:
    return len(a) == len(b) and a == b


def skeleton(node, table):
    """AST -> tuple tree whose leaves are indices into `table` (a list of names compared with ==,
    never hashed, so that symbolic names stay symbolic)."""
    if node is None:
        return None
    d = node.data
    if isinstance(d, ASTOperation):
        if d == ASTOperation.NOT:
            operand = node.left if node.left is not None else node.right
            return ('NOT', skeleton(operand, table))
        return (d.name, skeleton(node.left, table), skeleton(node.right, table))
    key = d if isinstance(d, str) else repr(d)
    for i, nm in enumerate(table):
        if same_str(nm, key):
            return i
    table.append(key)
    return len(table) - 1


def tree_skeleton(tree, table):
    if isinstance(tree, tuple):
        return (tree[0],) + tuple(tree_skeleton(t, table) for t in tree[1:])
    for i, nm in enumerate(table):
        if same_str(nm, tree):
            return i
    table.append(tree)
    return len(table) - 1


@functools.lru_cache(maxsize=100000)
def _skel_equiv(a, b) -> bool:
    import z3
    ctx = z3.Context()
    env = {}

    def tr(s):
        if isinstance(s, int):
            if s not in env:
                env[s] = z3.Bool('x%d' % s, ctx)
            return env[s]
        op = s[0]
        if op == 'NOT':
            return z3.Not(tr(s[1]), ctx)
        l, r = tr(s[1]), tr(s[2])
        if op == 'AND':
            return z3.And(l, r, ctx)
        if op == 'OR':
            return z3.Or(l, r, ctx)
        if op == 'XOR':
            return z3.Xor(l, r, ctx)
        if op in ('IMPLIES', 'REQUIRES'):
            return z3.Implies(l, r, ctx)
        if op == 'EXCLUDES':
            return z3.Not(z3.And(l, r, ctx), ctx)
        if op == 'EQUIVALENCE':
            return l == r
        raise ValueError(op)
    r = R.decide(z3, ctx, z3.Xor(tr(a), tr(b), ctx))
    if r == 'unknown':
        raise RuntimeError('solver unknown')
    return r == 'unsat'


def skel_vars(s, acc=None):
    acc = set() if acc is None else acc
    if isinstance(s, int):
        acc.add(s)
    elif s is not None:
        for x in s[1:]:
            skel_vars(x, acc)
    return acc


def skel_equiv(a, b) -> bool:
    """Same variable set and logically equivalent (z3, over all assignments)."""
    if a == b:
        return True
    with NoTracing():
        if skel_vars(a) != skel_vars(b):
            return False
        return _skel_equiv(a, b)


def ctcs_equivalent(m1, m2, same_names=True) -> bool:
    """One-to-one (same position) logical equivalence of the constraints of two models."""
    if len(m1.ctcs) != len(m2.ctcs):
        return False
    table = []
    for c1, c2 in zip(m1.ctcs, m2.ctcs):
        if same_names and not same_str(c1.name, c2.name):
            return False
        if not skel_equiv(skeleton(c1.ast.root, table), skeleton(c2.ast.root, table)):
            return False
    return True


# -- tree snapshots ------------------------------------------------------------------------------

def tree_snapshot(m, attrs=True, types=True):
    return R.snapshot(m, with_ctc_names=False, with_attrs=attrs, with_types=types)[0]


def same_model(m1, m2, attrs=True, types=True, ctc_names=True) -> bool:
    return tree_snapshot(m1, attrs, types) == tree_snapshot(m2, attrs, types) and ctcs_equivalent(m1, m2, ctc_names)


# -- temp files -----------------------------------------------------------------------------------

class TempDir:
    def __enter__(self):
        self.d = tempfile.mkdtemp(prefix='fmv_rt_')
        return self.d

    def __exit__(self, *a):
        shutil.rmtree(self.d, ignore_errors=True)
        return False


WEIRD_NAMES = ['A', 'a b', 'x-y', '1abc', '_u', 'Ünï', 'é', '€uro', 'or', 'AND', 'features', 'true', 'a"b', "it's", 'a.b', 'tab\there',
               'semi;colon', '<tag>', 'a&b', '{', 'x' * 40, ' lead', 'trail ', '#', 'NOT', 'requires', 'Integer', 'cardinality', 'abstract', 'null']


# -- the real transform() of the file readers on an in-memory document -------------------------------------
# The readers parse a file (ElementTree.parse / open + json.load) and then walk the parsed object. The walk,
# including the glue inside transform(), must run for real (symbolically in E1); only the file parser is a stub
# with the contract "returns the document": the name the reader module uses for it is shimmed for the call.

class _ModShim:
    def __init__(self, real, **over):
        self._real = real
        self.__dict__.update(over)

    def __getattr__(self, k):
        return getattr(self._real, k)


class _NullFile:
    def __enter__(self):
        return self

    def __exit__(self, *a):
        return False

    def read(self, *a):
        return ''

    def close(self):
        pass


def xml_transform(reader_cls, tree):
    """reader_cls(path).transform() with <module>.ElementTree.parse returning `tree` (an ElementTree)."""
    import sys
    mod = sys.modules[reader_cls.__module__]
    saved = mod.ElementTree
    mod.ElementTree = _ModShim(saved, parse=lambda *a, **k: tree)
    try:
        return reader_cls('/nonexistent/in-memory.xml').transform()
    finally:
        mod.ElementTree = saved


def json_transform(reader_cls, data):
    """reader_cls(path).transform() with open() and json.load() of the reader module returning `data`."""
    import sys
    mod = sys.modules[reader_cls.__module__]
    saved_json = mod.json
    had_open = 'open' in mod.__dict__
    saved_open = mod.__dict__.get('open')
    mod.json = _ModShim(saved_json, load=lambda *a, **k: data)
    mod.open = lambda *a, **k: _NullFile()
    try:
        return reader_cls('/nonexistent/in-memory.json').transform()
    finally:
        mod.json = saved_json
        if had_open:
            mod.open = saved_open
        else:
            del mod.open


# Sets of distinct names that become equal (or contain one another) under the usual normalisations: removal or
# trimming of blanks, case folding, separator replacement, quoting, escaping, Unicode normal forms, numeric
# reading, truncation. A format that derives identifiers from names must keep the members of a set apart.
CONFUSABLE_SETS = [
    ['Data Base', 'DataBase', 'Data  Base', 'DataBase '],
    [' A', 'A', 'A ', ' A '],
    ['abc', 'ABC', 'Abc', 'aBC'],
    ['a-b', 'a_b', 'a b', 'ab'],
    ['q', '"q"', "'q'", chr(92) + 'q'],
    ['\u00e9', 'e\u0301', 'e', '\u00c9'],
    ['F1', 'F10', 'F', 'F01'],
    ['a&b', 'a&amp;b', 'a<b', 'a&lt;b'],
    ['1', '01', '1.0', '+1'],
    ['a b', 'a\tb', 'a\u00a0b', 'a\u2003b'],
    ['x' * 40, 'x' * 41, 'x' * 39 + 'y', 'x' * 20],
    ['a/b', 'a:b', 'a|b', 'a%2Fb'],
    ['A.B', 'A..B', 'AB', 'A_B'],
]


# Constraints that only differ by the letter case of a feature name, or that are repeated literally: each is a
# constraint of the model and must survive (Constraint.__eq__ compares the lower-cased text, so a reader or writer
# that de-duplicates with == or a set loses them).
DUP_SHAPE = (((),), ((),), ((),))
DUP_CARDS = [(1, 1), (0, 1), (0, 1)]
DUP_NAMES = ['Root', 'Gui', 'GUI', 'Core']
DUP_CTC_SETS = [
    [('REQUIRES', 'Gui', 'Core'), ('REQUIRES', 'GUI', 'Core')],
    [('IMPLIES', 'Gui', 'Core'), ('IMPLIES', 'Gui', 'Core')],
    [('EXCLUDES', 'Gui', 'GUI'), ('EXCLUDES', 'GUI', 'Gui'), ('OR', ('NOT', 'Gui'), 'Core'), ('OR', ('NOT', 'GUI'), 'Core'), ('OR', ('NOT', 'Gui'), 'Core')],
    [('REQUIRES', 'Core', 'Gui'), ('EXCLUDES', 'Core', 'GUI'), ('REQUIRES', 'Core', 'GUI'), ('EXCLUDES', 'Core', 'Gui')],
    # twelve distinct constraints (named n0..n11: 'n10' sorts before 'n2', readers that rename by position write 'Constraint 10'):
    # a writer or reader that orders constraints by name reshuffles them from the eleventh on
    [('IMPLIES', 'Gui', 'Core'), ('IMPLIES', 'Core', 'Gui'), ('EXCLUDES', 'Gui', 'Core'), ('OR', 'Gui', 'Core'), ('AND', 'Gui', 'Core'),
     ('IMPLIES', 'GUI', 'Core'), ('IMPLIES', 'Core', 'GUI'), ('OR', 'GUI', 'Core'), ('AND', 'GUI', 'Core'), ('OR', ('NOT', 'Gui'), 'GUI'),
     ('OR', 'Gui', ('NOT', 'GUI')), ('EQUIVALENCE', 'Gui', 'Core')],
]


def impl_pairs(names=('F0', 'F1', 'F2')):
    """conjunctions of two implications over literals and negated literals (depth 3): (x => y) & (z => w)."""
    lits = list(names) + [('NOT', n) for n in names]
    return [('AND', ('IMPLIES', x, y), ('IMPLIES', z, w)) for x in lits for y in lits for z in lits for w in lits]


def impl_pairs_batch(modname, lo, hi, label):
    """native: <module>.cycle_tree(tree) over the impl_pairs family."""
    import importlib
    fn = importlib.import_module(modname).cycle_tree
    res = {'instances': 0, 'nontrivial': 0, 'violations': [], 'native_runs': 0}
    fam = impl_pairs()
    for t in fam[lo:hi]:
        res['instances'] += 1
        res['native_runs'] += 1
        res['nontrivial'] += 1
        bad = fn(t)
        if bad:
            res['violations'].append({'label': label, 'detail': bad[0][:600], 'replay_func': 'cycle_tree', 'replay_args': [t]})
            if len(res['violations']) >= 4:
                return res
    res['sample'] = {'family': '(x => y) & (z => w) over literals and negated literals', 'tree': repr(fam[lo:hi][-1]) if fam[lo:hi] else None}
    return res


def dup_models():
    return [R.build(DUP_SHAPE, DUP_CARDS, names=DUP_NAMES, ctcs=[R.ctc('n%d' % i, t) for i, t in enumerate(trees)]) for trees in DUP_CTC_SETS]


def dup_batch(modname, label):
    """native: every near-duplicate constraint set through <module>.replay_dups(k) -> list of problems."""
    res = {'instances': 0, 'nontrivial': 0, 'violations': [], 'native_runs': 0}
    for k in range(len(DUP_CTC_SETS)):
        res['instances'] += 1
        res['native_runs'] += 1
        res['nontrivial'] += 1
        import importlib
        bad = importlib.import_module(modname).replay_dups(k)
        if bad:
            res['violations'].append({'label': label, 'detail': bad[0][:700], 'replay_func': 'replay_dups', 'replay_args': [k]})
    res['sample'] = {'names': DUP_NAMES, 'constraints': DUP_CTC_SETS[0]}
    return res


def confusable_cases(n, ok=None, fill='F%d'):
    """name lists of length n (n >= 2): the members of each set that the format can express (ok), in two
    arrangements, padded with placeholders."""
    out = []
    for cs in CONFUSABLE_SETS:
        mem = [w for w in cs if ok is None or ok(w)]
        if len(mem) < 2:
            continue
        for arr in (mem, list(reversed(mem))):
            names = list(arr[:n])
            names += [fill % i for i in range(len(names), n)]
            out.append(names)
    return out


# -- every constraint tree of a family through one write/read cycle --------------------------------

def ctc_family(ops, names, full):
    """depth<=2 trees: root in ops (+NOT); children: leaves, negated leaves, and one binary level
    (every (op, leaf, leaf)); `full` adds negated binary children."""
    leaves = list(names)
    kids = leaves + [('NOT', n) for n in leaves]
    for op in ops:
        for l in leaves:
            for r in leaves:
                kids.append((op, l, r))
    if full:
        kids += [('NOT', k) for k in kids if isinstance(k, tuple) and k[0] != 'NOT']
    trees = [k for k in kids if isinstance(k, tuple)]
    trees += [('NOT', k) for k in kids if isinstance(k, tuple)]
    for op in ops:
        for l in kids:
            for r in kids:
                if isinstance(l, tuple) or isinstance(r, tuple):
                    trees.append((op, l, r))
    seen = set()
    out = []
    for t in trees:
        if t not in seen:
            seen.add(t)
            out.append(t)
    return out


def ctc_tree_batch(modname, cycle_name, ops, lo, hi, full, label, names=None):
    """cycle_name: function(tree) -> list of problems, defined in module modname (used for replay)."""
    import importlib
    mod = importlib.import_module(modname)
    fn = getattr(mod, cycle_name)
    trees = ctc_family(ops, names or ['F0', 'F1', 'F2'], full)[lo:hi]
    res = {'instances': 0, 'nontrivial': 0, 'violations': [], 'native_runs': 0}
    for t in trees:
        res['instances'] += 1
        res['nontrivial'] += 1
        res['native_runs'] += 1
        bad = fn(t)
        if bad:
            res['violations'].append({'label': label, 'detail': bad[0], 'replay_func': cycle_name, 'replay_args': [t]})
            if len(res['violations']) >= 4:
                break
    res['sample'] = {'family': 'depth<=2 constraint trees over %r' % (ops,), 'tree': repr(trees[-1]) if trees else None}
    return res
