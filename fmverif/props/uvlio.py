"""UVL helpers: fragment model builder, file-level round trip, model comparison."""
from __future__ import annotations

import os

from flamapy.core.models.ast import ASTOperation
from flamapy.metamodels.fm_metamodel.models import Attribute, FeatureType
from flamapy.metamodels.fm_metamodel.transformations import UVLWriter, UVLReader

from .. import refsem as R
from . import rt
from .c14 import _index

TYPES = [None, FeatureType.BOOLEAN, FeatureType.INTEGER, FeatureType.REAL, FeatureType.STRING]

LOGIC = {'AND', 'OR', 'NOT', 'IMPLIES', 'EQUIVALENCE', 'REQUIRES', 'EXCLUDES', 'XOR'}


def make(shape, cards, names=None, abstract=None, types=None, fcards=None, attrs=None, trees=None):
    """attrs: [(feature index, name, value)]; trees: constraint trees over the feature names."""
    n = R.n_features(shape)
    names = names or ['F%d' % i for i in range(n)]
    cn = R.ctc_names(len(trees or []), n + len(cards), 'Constraint %d')
    ctcs = [R.ctc(cn[i], t) for i, t in enumerate(trees or [])]
    m = R.build(shape, cards, names=names, abstract=abstract, types=types, fcards=fcards, ctcs=ctcs)
    if attrs:
        feats = _index(m)
        for fi, aname, value in attrs:
            feats[fi].add_attribute(Attribute(aname, None, value, None))
    return m


def norm_tree(t):
    """normal form of a constraint description: REQUIRES -> IMPLIES, EXCLUDES(a,b) -> IMPLIES(a, NOT b)."""
    if not isinstance(t, tuple):
        return t
    if len(t) == 1:
        return t
    op = t[0]
    args = [norm_tree(x) for x in t[1:]]
    if op == 'REQUIRES':
        return ('IMPLIES',) + tuple(args)
    if op == 'EXCLUDES':
        return ('IMPLIES', args[0], ('NOT', args[1]))
    return (op,) + tuple(a for a in args if a is not None)


def ops_in(t):
    if not isinstance(t, tuple):
        return []
    out = [t[0]]
    for x in t[1:]:
        out += ops_in(x)
    return out


def ctcs_same(m1, m2) -> bool:
    """one-to-one: logical constraints by z3 equivalence (same variables); others structurally
    (modulo requires/excludes spelling)."""
    if len(m1.ctcs) != len(m2.ctcs):
        return False
    table = []
    for c1, c2 in zip(m1.ctcs, m2.ctcs):
        t1, t2 = R.node_tree(c1.ast.root), R.node_tree(c2.ast.root)
        if all(o in LOGIC for o in ops_in(t1)) and all(o in LOGIC for o in ops_in(t2)):
            if not rt.skel_equiv(rt.skeleton(c1.ast.root, table), rt.skeleton(c2.ast.root, table)):
                return False
        elif norm_tree(t1) != norm_tree(t2):
            return False
    return True


def same(m1, m2) -> bool:
    return rt.tree_snapshot(m1, attrs=True, types=True) == rt.tree_snapshot(m2, attrs=True, types=True) and ctcs_same(m1, m2)


def file_roundtrip(m, cycles=3) -> list:
    out = []
    with rt.TempDir() as d:
        p1 = os.path.join(d, 'm1.uvl')
        text = UVLWriter(p1, m).transform()
        with open(p1, 'rb') as f:
            raw = f.read()
        if raw.decode('utf-8') != text:
            out.append('returned text differs from the file content')
        m2 = UVLReader(p1).transform()
        if not same(m, m2):
            out.append('model read back differs: %r vs written %r' % (R.snapshot(m2), R.snapshot(m)))
            return out
        prev_text, prev_m = text, m2
        for i in range(2, cycles + 1):
            p = os.path.join(d, 'm%d.uvl' % i)
            t = UVLWriter(p, prev_m).transform()
            if t != prev_text:
                out.append('cycle %d text differs from cycle %d' % (i, i - 1))
                break
            mi = UVLReader(p).transform()
            if R.snapshot(mi) != R.snapshot(prev_m):
                out.append('cycle %d model differs' % i)
                break
            prev_text, prev_m = t, mi
    return out
