"""Token substitution on real UVL parse trees (DESIGN.md section 2).

The real lexer + parser run (untraced) on a concrete *template*; payload tokens then receive symbolic
text; the real reader's transform() runs on the tree.  The lexer is thereby replaced by a contract:
"a piece is delivered as one token of class K iff the installed lexer lexes the piece, standing alone
between blanks, as exactly one token of class K".  The contract predicates are generated from the
installed lexer by probing its character classes (native) and validated against it on a sweep.
"""
from __future__ import annotations

import functools

from antlr4 import CommonTokenStream, InputStream
from antlr4.error.ErrorListener import ErrorListener
from uvl.UVLCustomLexer import UVLCustomLexer
from uvl.UVLPythonParser import UVLPythonParser

from flamapy.metamodels.fm_metamodel.transformations import UVLReader

try:
    from crosshair.tracers import NoTracing
except Exception:  # pragma: no cover
    import contextlib
    NoTracing = contextlib.nullcontext


class _Collect(ErrorListener):
    def __init__(self):
        super().__init__()
        self.errors = []

    def syntaxError(self, recognizer, offendingSymbol, line, column, msg, e):
        self.errors.append('%s:%s %s' % (line, column, msg))


def parse_text(text):
    """real lexer + parser on a concrete text -> (tree, tokens, errors)."""
    lexer = UVLCustomLexer(InputStream(text))
    errs = _Collect()
    lexer.removeErrorListeners()
    lexer.addErrorListener(errs)
    stream = CommonTokenStream(lexer)
    parser = UVLPythonParser(stream)
    parser.removeErrorListeners()
    parser.addErrorListener(errs)
    tree = parser.featureModel()
    return tree, list(stream.tokens), errs.errors


def reader_on(tree):
    rd = UVLReader('/nonexistent/template.uvl')
    rd.set_parse_tree = lambda: None
    rd.parse_tree = tree
    return rd


def lex_kinds(piece):
    """token type names the real lexer produces for `piece` standing alone on a feature line."""
    lexer = UVLCustomLexer(InputStream('features\n\t' + piece + '\n'))
    errs = _Collect()
    lexer.removeErrorListeners()
    lexer.addErrorListener(errs)
    toks = []
    while True:
        t = lexer.nextToken()
        if t.type == -1:
            break
        toks.append(t)
    names = UVLPythonParser.symbolicNames
    lit = UVLPythonParser.literalNames
    # drop 'features' NEWLINE INDENT ... NEWLINE DEDENT framing
    kinds = []
    for t in toks:
        nm = names[t.type] if t.type < len(names) and names[t.type] != '<INVALID>' else lit[t.type]
        kinds.append((nm, t.text))
    core = [k for k in kinds[1:] if k[0] not in ('NEWLINE', 'INDENT', 'DEDENT')]
    return core, errs.errors


@functools.lru_cache(maxsize=None)
def id_strict_classes():
    """(first_chars, rest_chars) of ID_STRICT, probed from the installed lexer over a candidate alphabet."""
    cand = [chr(c) for c in range(32, 127)] + list('äüößÄÖÜ§éñ€µ')
    first, rest = [], []
    for ch in cand:
        k, e = lex_kinds(ch)
        if not e and len(k) == 1 and k[0][0] == 'ID_STRICT':
            first.append(ch)
        k, e = lex_kinds('a' + ch + 'a')
        if not e and len(k) == 1 and k[0][0] == 'ID_STRICT':
            rest.append(ch)
    return ''.join(first), ''.join(rest)


@functools.lru_cache(maxsize=None)
def reserved_words():
    lit = [x.strip("'") for x in UVLPythonParser.literalNames if x.startswith("'")]
    words = [w for w in lit if w and w[0].isalpha() and w.replace('-', '').isalnum()] + ['true', 'false']
    out = []
    for w in words:
        k, e = lex_kinds(w)
        if not (len(k) == 1 and k[0][0] == 'ID_STRICT'):
            out.append(w)
    return tuple(sorted(set(out)))


def is_id_strict(piece, first, rest, reserved) -> bool:
    """contract predicate (runs symbolically): piece is lexed as one ID_STRICT token."""
    if len(piece) == 0:
        return False
    if piece[0] not in first:
        return False
    for ch in piece[1:]:
        if ch not in rest:
            return False
    for w in reserved:
        if len(piece) == len(w) and piece == w:
            return False
    return True


def is_id_not_strict(piece) -> bool:
    """'"' ~[\\r\\n".]+ '"'"""
    if len(piece) < 3 or piece[0] != '"' or piece[len(piece) - 1] != '"':
        return False
    for ch in piece[1:len(piece) - 1]:
        if ch in '\r\n".':
            return False
    return True


# probed once at import time (outside any tracing): CrossHair bypasses lru_cache under tracing
ID_FIRST, ID_REST = id_strict_classes()
RESERVED = reserved_words()


def lexes_as_identifier(piece) -> bool:
    return is_id_strict(piece, ID_FIRST, ID_REST, RESERVED) or is_id_not_strict(piece)


def is_string_token(piece) -> bool:
    """STRING: "'" ~[\\r\\n'.]+ "'" """
    if len(piece) < 3 or piece[0] != "'" or piece[len(piece) - 1] != "'":
        return False
    for ch in piece[1:len(piece) - 1]:
        if ch in "\r\n'.":
            return False
    return True
