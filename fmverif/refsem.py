"""Reference semantics, shape enumeration, model construction and snapshots.

Nothing in this file calls a query / transformation / operation of the code under test; models are
built through the public constructors only (Feature, Relation, add_relation, Constraint, AST, Node,
Attribute) and are walked through plain attributes.

Shape  = tuple of relations; relation = tuple of child shapes.  ()  is a leaf / the root alone.
Features are numbered in DFS preorder (F0 is the root); relations are numbered in the order
"relation, then the relations below its children" (R0, R1, ...).
"""
from __future__ import annotations

import functools
import itertools
from typing import Any, Iterable, Optional

from flamapy.core.models.ast import AST, Node, ASTOperation
from flamapy.metamodels.fm_metamodel.models import (
    FeatureModel, Feature, Relation, Constraint, Attribute, Domain, Range, Cardinality, FeatureType)

# --------------------------------------------------------------------------------------------
# shapes


@functools.lru_cache(maxsize=None)
def _forests(n: int) -> tuple:
    """All ordered sequences of trees (shapes) with n features in total."""
    if n == 0:
        return ((),)
    res = []
    for first in range(1, n + 1):
        for t in _trees(first):
            for rest in _forests(n - first):
                res.append((t,) + rest)
    return tuple(res)


def _compositions(seq: tuple) -> Iterable[tuple]:
    """All splits of seq into consecutive non-empty blocks."""
    if not seq:
        yield ()
        return
    for i in range(1, len(seq) + 1):
        for rest in _compositions(seq[i:]):
            yield (tuple(seq[:i]),) + rest


@functools.lru_cache(maxsize=None)
def _trees(n: int) -> tuple:
    """All shapes with exactly n features."""
    res = []
    for forest in _forests(n - 1):
        for comp in _compositions(forest):
            res.append(comp)
    return tuple(res)


def shapes(max_n: int, min_n: int = 1) -> list:
    out = []
    for n in range(min_n, max_n + 1):
        out.extend(_trees(n))
    return out


def n_features(shape) -> int:
    return 1 + sum(n_features(c) for r in shape for c in r)


def relations_of(shape) -> list:
    """[(parent_index, [child indices])] in relation numbering order."""
    rels = []
    counter = [0]

    def walk(sh, idx):
        for rel in sh:
            entry = [idx, []]
            rels.append(entry)
            for child in rel:
                counter[0] += 1
                cidx = counter[0]
                entry[1].append(cidx)
                walk(child, cidx)
    walk(shape, 0)
    return [(p, list(cs)) for p, cs in rels]


def parents_of(shape) -> list:
    n = n_features(shape)
    par: list = [None] * n
    for p, cs in relations_of(shape):
        for c in cs:
            par[c] = p
    return par


def children_of(shape) -> list:
    n = n_features(shape)
    ch: list = [[] for _ in range(n)]
    # order: by relation order of the parent, then child order
    for p, cs in relations_of(shape):
        ch[p].extend(cs)
    return ch


def rels_by_parent(shape) -> list:
    n = n_features(shape)
    out: list = [[] for _ in range(n)]
    for ri, (p, cs) in enumerate(relations_of(shape)):
        out[p].append(ri)
    return out


def depth_of(shape) -> int:
    par = parents_of(shape)

    def d(i):
        k = 0
        while par[i] is not None:
            i = par[i]
            k += 1
        return k
    return max(d(i) for i in range(len(par)))


def shape_str(shape) -> str:
    return repr(shape).replace(' ', '').replace(',)', ')')


# --------------------------------------------------------------------------------------------
# relation classes by definition


def rel_class(mn, mx, k) -> str:
    """Definition table of C03 (mn, mx, k may be symbolic ints)."""
    if k == 1:
        if mn == 1 and mx == 1:
            return 'mandatory'
        if mn == 0 and mx == 1:
            return 'optional'
        return 'none'
    if mn == 1 and mx == 1:
        return 'alternative'
    if mn == 1 and mx == k:
        return 'or'
    if mn == 0 and mx == 1:
        return 'mutex'
    return 'cardinality'


# --------------------------------------------------------------------------------------------
# building models through the public constructors

DEFAULT_NAMES = ['F%d' % i for i in range(256)]


def build_mode(shape, cards) -> int:
    """Which of the three public construction orders build() uses for this instance: a function of the instance
    alone (so a replay builds the same way); with symbolic cardinalities a function of the shape alone."""
    k = n_features(shape) + len(cards)
    if all(type(x) is int for c in cards for x in c):
        k += sum(3 * a + b for a, b in cards)
    return k % 3


def build(shape, cards, names=None, abstract=None, ctcs=None, types=None, fcards=None, mode=None) -> FeatureModel:
    """cards: list of (min, max) per relation; names: list per feature (preorder).
    The model is put together through the public API in one of three orders that yield the same well-formed model:
    0  Relation(parent, children, min, max) + parent.add_relation(rel)                  (what most readers do)
    1  Relation(parent, [], min, max); rel.add_child(c) for each child; parent.add_relation(rel)
    2  children created with Feature(name, parent=p); the relation appended to p.get_relations()   (XML-reader style)"""
    names = DEFAULT_NAMES if names is None else names
    n = n_features(shape)
    mode = build_mode(shape, cards) if mode is None else mode
    par = parents_of(shape)
    feats = []
    for i in range(n):
        if mode == 2 and par[i] is not None:
            f = Feature(names[i], parent=feats[par[i]])
        else:
            f = Feature(names[i])
        if abstract is not None:
            f.is_abstract = abstract[i]          # assigned, not branched on: a symbolic flag must not fork the build
        if types is not None and types[i] is not None:
            f.feature_type = types[i]
        if fcards is not None and fcards[i] is not None:
            f.feature_cardinality = Cardinality(fcards[i][0], fcards[i][1])
        feats.append(f)
    for ri, (p, cs) in enumerate(relations_of(shape)):
        mn, mx = cards[ri]
        if mode == 1:
            rel = Relation(feats[p], [], mn, mx)
            for c in cs:
                rel.add_child(feats[c])
            feats[p].add_relation(rel)
        elif mode == 2:
            feats[p].get_relations().append(Relation(feats[p], [feats[c] for c in cs], mn, mx))
        else:
            feats[p].add_relation(Relation(feats[p], [feats[c] for c in cs], mn, mx))
    return FeatureModel(feats[0], list(ctcs) if ctcs else [])


def default_cards(shape, kind='mixed') -> list:
    """A representative concrete cardinality vector."""
    out = []
    for ri, (p, cs) in enumerate(relations_of(shape)):
        k = len(cs)
        if k == 1:
            out.append((1, 1) if (ri % 2 == 0) else (0, 1))
        else:
            out.append([(1, 1), (1, k), (0, 1), (0, k) if k > 1 else (1, k)][ri % 4] if kind == 'mixed'
                       else (1, k))
    return out


def all_cards(shape, allow_zero_max=False) -> Iterable[list]:
    rels = relations_of(shape)
    opts = []
    for p, cs in rels:
        k = len(cs)
        o = [(a, b) for a in range(0, k + 1) for b in range(a, k + 1) if (b >= 1 or allow_zero_max)]
        opts.append(o)
    for combo in itertools.product(*opts):
        yield list(combo)


# --------------------------------------------------------------------------------------------
# constraint trees

LOGICAL = [ASTOperation.AND, ASTOperation.OR, ASTOperation.XOR, ASTOperation.IMPLIES,
           ASTOperation.EQUIVALENCE, ASTOperation.REQUIRES, ASTOperation.EXCLUDES]


def mk(tree) -> Node:
    """tree: str (leaf) | ('NOT', t) | (OPNAME, l, r)  ->  Node (fresh objects)."""
    if isinstance(tree, (str, int, float)):
        return Node(tree)
    op = ASTOperation[tree[0]]
    if len(tree) == 2:
        return Node(op, mk(tree[1]))
    return Node(op, mk(tree[1]), mk(tree[2]))


def ctc_names(k, salt, unique='c%d'):
    """names for k constraints: a constraint's name need not be unique (hand-built models), so besides distinct names
    the same name for all and the empty name are used; which, is a function of the instance (k, salt) alone."""
    mode = (k + salt) % 3
    if mode == 1:
        return ['ctc'] * k
    if mode == 2:
        return [''] * k
    return [unique % i for i in range(k)]


def ctc(name, tree) -> Constraint:
    return Constraint(name, AST(mk(tree)))


def tree_names(tree) -> list:
    if isinstance(tree, str):
        return [tree]
    if isinstance(tree, (int, float)):
        return []
    out = []
    for t in tree[1:]:
        for n in tree_names(t):
            if n not in out:
                out.append(n)
    return out


BIN_OPS = ['AND', 'OR', 'XOR', 'IMPLIES', 'EQUIVALENCE', 'REQUIRES', 'EXCLUDES']


def logical_trees(names, depth) -> list:
    """All trees over the eight logical operators up to `depth` (0 = leaves)."""
    level = list(names)
    allt = list(level)
    for _ in range(depth):
        new = []
        for t in allt:
            new.append(('NOT', t))
        for op in BIN_OPS:
            for l in allt:
                for r in allt:
                    new.append((op, l, r))
        seen = set(allt)
        for t in new:
            if t not in seen:
                seen.add(t)
                allt.append(t)
    return allt


def node_tree(node) -> Any:
    """Structural description of an AST produced by the code under test (attributes only)."""
    if node is None:
        return None
    data = node.data.name if isinstance(node.data, ASTOperation) else node.data
    if node.left is None and node.right is None:
        return data if not isinstance(node.data, ASTOperation) else (data,)
    return (data, node_tree(node.left), node_tree(node.right))


# --------------------------------------------------------------------------------------------
# snapshot (identity free, attribute walk only)


def snap_value(v) -> Any:
    if isinstance(v, dict):
        return ('map', tuple((snap_value(k), snap_value(x)) for k, x in v.items()))
    if isinstance(v, (list, tuple)):
        return ('list', tuple(snap_value(x) for x in v))
    if isinstance(v, bool):
        return ('bool', v)
    if isinstance(v, int):
        return ('int', v)
    if isinstance(v, float):
        return ('float', repr(v))          # repr: -0.0 and 0.0 are different values, nan compares by text
    if v is None:
        return ('none',)
    if isinstance(v, str):
        return ('str', v)
    if isinstance(v, Range):
        return ('range', snap_value(v.min_value), snap_value(v.max_value))
    if isinstance(v, Domain):
        return ('domain', tuple(snap_value(r) for r in v.range_list), tuple(snap_value(e) for e in v.element_list))
    return ('obj', type(v).__name__, str(v))


def snapshot(model: FeatureModel, with_ctc_names=True, with_attrs=True, with_types=True) -> tuple:
    def feat(f, parent):
        rels = []
        for r in f.relations:
            rels.append((
                'rel', r.card_min, r.card_max,
                r.parent.name if r.parent is not None else None,
                tuple(feat(c, f) for c in r.children)))
        attrs = ()
        if with_attrs:
            attrs = tuple((a.name, snap_value(a.default_value), snap_value(a.null_value),
                           snap_value(a.domain) if a.domain is not None else None,
                           a.parent.name if a.parent is not None else None) for a in f.attributes)
        typ = ()
        if with_types:
            typ = (f.feature_type.name, f.feature_cardinality.min, f.feature_cardinality.max)
        return ('feat', f.name, bool(f.is_abstract) if isinstance(f.is_abstract, bool) else ('notbool', f.is_abstract),
                f.parent.name if f.parent is not None else None, typ, attrs, tuple(rels))
    ctcs = tuple(((c.name if with_ctc_names else None), node_tree(c.ast.root)) for c in model.ctcs)
    return (feat(model.root, None), ctcs)


# --------------------------------------------------------------------------------------------
# z3 semantics (E2)


def z3ctx():
    import z3
    return z3


def tree2z3(shape, cards, z3, ctx, var=None):
    """Reference configuration semantics of a feature tree; returns (formula, vars)."""
    n = n_features(shape)
    var = var or [z3.Bool('f%d' % i, ctx) for i in range(n)]
    cons = [var[0]]
    for ri, (p, cs) in enumerate(relations_of(shape)):
        mn, mx = cards[ri]
        for c in cs:
            cons.append(z3.Implies(var[c], var[p], ctx))
        s = z3.Sum([z3.If(var[c], z3.IntVal(1, ctx), z3.IntVal(0, ctx), ctx) for c in cs]) if len(cs) > 1 \
            else z3.If(var[cs[0]], z3.IntVal(1, ctx), z3.IntVal(0, ctx), ctx)
        bound = [s >= mn]
        if mx != -1:
            bound.append(s <= mx)
        cons.append(z3.Implies(var[p], z3.And(bound, ctx) if len(bound) > 1 else bound[0], ctx))
    return z3.And(cons, ctx), var


def ast2z3(node, env, z3, ctx):
    """flamapy.core AST node -> z3 Bool by the standard truth tables. env: name -> z3 Bool
    (created on demand)."""
    if node is None:
        raise ValueError('missing operand')
    d = node.data
    if not isinstance(d, ASTOperation):
        key = str(d)
        if key not in env:
            env[key] = z3.Bool('v_' + key, ctx)
        return env[key]
    if d == ASTOperation.NOT:
        operand = node.left if node.left is not None else node.right
        return z3.Not(ast2z3(operand, env, z3, ctx), ctx)
    l = ast2z3(node.left, env, z3, ctx)
    r = ast2z3(node.right, env, z3, ctx)
    if d == ASTOperation.AND:
        return z3.And(l, r, ctx)
    if d == ASTOperation.OR:
        return z3.Or(l, r, ctx)
    if d == ASTOperation.XOR:
        return z3.Xor(l, r, ctx)
    if d in (ASTOperation.IMPLIES, ASTOperation.REQUIRES):
        return z3.Implies(l, r, ctx)
    if d == ASTOperation.EXCLUDES:
        return z3.Not(z3.And(l, r, ctx), ctx)
    if d == ASTOperation.EQUIVALENCE:
        return l == r
    raise ValueError('not a logical operator: %s' % d)


def tree2z3_expr(tree, env, z3, ctx):
    """Reference meaning of a constraint *description* (tuple tree), independent of Node."""
    if isinstance(tree, str):
        if tree not in env:
            env[tree] = z3.Bool('v_' + tree, ctx)
        return env[tree]
    op = tree[0]
    if op == 'NOT':
        return z3.Not(tree2z3_expr(tree[1], env, z3, ctx), ctx)
    l = tree2z3_expr(tree[1], env, z3, ctx)
    r = tree2z3_expr(tree[2], env, z3, ctx)
    return {
        'AND': lambda: z3.And(l, r, ctx), 'OR': lambda: z3.Or(l, r, ctx), 'XOR': lambda: z3.Xor(l, r, ctx),
        'IMPLIES': lambda: z3.Implies(l, r, ctx), 'REQUIRES': lambda: z3.Implies(l, r, ctx),
        'EXCLUDES': lambda: z3.Not(z3.And(l, r, ctx), ctx), 'EQUIVALENCE': lambda: l == r,
    }[op]()


class Z3Stats:
    queries = 0
    time = 0.0
    unknown = 0
    record = None          # list of (smt2 text, verdict) when the batch is re-decided by a second solver
    record_cap = 0


def decide(z3, ctx, *formulas, timeout_ms=20000) -> str:
    """'sat' | 'unsat' | 'unknown' for the conjunction."""
    import time as _t
    s = z3.Solver(ctx=ctx)
    s.set('timeout', timeout_ms)
    for f in formulas:
        s.add(f)
    t = _t.perf_counter()
    r = str(s.check())
    Z3Stats.queries += 1
    Z3Stats.time += _t.perf_counter() - t
    if r == 'unknown':
        Z3Stats.unknown += 1
    rec = Z3Stats.record
    if rec is not None and r != 'unknown':
        # every query up to the cap, afterwards a thinning sample (so that late instances of a batch are seen too)
        if len(rec) < Z3Stats.record_cap or Z3Stats.queries % 97 == 0:
            if len(rec) < 4 * Z3Stats.record_cap:
                rec.append((s.to_smt2(), r))
    return r


def second_solver(records, timeout_s=300):
    """Re-decide recorded z3 queries with the cvc5 binary (one incremental process, push/pop per query).
    Returns {'checked', 'agree', 'disagree': [index...], 'errors', 'solver'}; any '(error' or missing answer counts as
    an error for that query (inconclusive), never as agreement."""
    import shutil
    import subprocess
    import tempfile
    import os as _os
    exe = shutil.which('cvc5')
    out = {'checked': 0, 'agree': 0, 'disagree': [], 'errors': 0, 'solver': 'cvc5 (binary on PATH)' if exe else 'unavailable'}
    if not exe or not records:
        return out
    parts = ['(set-logic ALL)']
    for text, _ in records:
        body = [ln for ln in text.splitlines() if ln.strip() and not ln.startswith(';') and not ln.startswith('(set-info') and ln.strip() != '(check-sat)']
        parts.append('(push 1)')
        parts.extend(body)
        parts.append('(check-sat)')
        parts.append('(pop 1)')
    fd, path = tempfile.mkstemp(suffix='.smt2')
    try:
        with _os.fdopen(fd, 'w') as f:
            f.write('\n'.join(parts) + '\n')
        try:
            p = subprocess.run([exe, '--incremental', '--tlimit-per=20000', path], stdout=subprocess.PIPE, stderr=subprocess.PIPE, text=True, timeout=timeout_s)
            answers = [ln.strip() for ln in p.stdout.splitlines() if ln.strip()]
        except subprocess.TimeoutExpired:
            answers = []
    finally:
        _os.remove(path)
    verdicts = [a for a in answers if a in ('sat', 'unsat', 'unknown') or a.startswith('(error')]
    for i, (_, r) in enumerate(records):
        a = verdicts[i] if i < len(verdicts) else 'missing'
        if a in ('sat', 'unsat'):
            out['checked'] += 1
            if a == r:
                out['agree'] += 1
            else:
                out['disagree'].append(i)
        else:
            out['errors'] += 1
    return out


def second_solver_selfcheck() -> str:
    """negative control of the cross-check: a satisfiable and an unsatisfiable query recorded with the WRONG verdict must
    both come back as disagreements, recorded with the right verdict as agreements. 'ok' | 'unavailable' | reason."""
    import z3
    ctx = z3.Context()
    a, b = z3.Bool('a', ctx), z3.Bool('b', ctx)
    texts = []
    for f in (z3.And(a, z3.Not(b, ctx), ctx), z3.And(a, z3.Not(a, ctx), ctx)):
        s = z3.Solver(ctx=ctx)
        s.add(f)
        texts.append(s.to_smt2())
    good = second_solver([(texts[0], 'sat'), (texts[1], 'unsat')])
    if good['solver'] == 'unavailable':
        return 'unavailable'
    bad = second_solver([(texts[0], 'unsat'), (texts[1], 'sat')])
    if good['agree'] != 2 or good['disagree'] or good['errors']:
        return 'control queries not confirmed: %r' % (good,)
    if bad['disagree'] != [0, 1]:
        return 'wrong verdicts not detected: %r' % (bad,)
    return 'ok'


def equivalent(z3, ctx, f, g) -> Optional[bool]:
    r = decide(z3, ctx, z3.Xor(f, g, ctx))
    return True if r == 'unsat' else False if r == 'sat' else None


def count_models(z3, ctx, formula, variables, limit=100000) -> int:
    s = z3.Solver(ctx=ctx)
    s.add(formula)
    n = 0
    while True:
        r = str(s.check())
        Z3Stats.queries += 1
        if r != 'sat':
            if r == 'unknown':
                raise RuntimeError('unknown in count_models')
            return n
        m = s.model()
        n += 1
        if n > limit:
            raise RuntimeError('too many models')
        s.add(z3.Or([v != m.eval(v, model_completion=True) for v in variables], ctx))


# --------------------------------------------------------------------------------------------
# closed forms over (possibly symbolic) cardinalities


def esym(values, j):
    """Elementary symmetric polynomial e_j(values) (values are ints, j concrete)."""
    # dp
    e = [1] + [0] * j
    for v in values:
        for t in range(j, 0, -1):
            e[t] = e[t] + e[t - 1] * v
    return e[j]


def ref_count(shape, cards) -> Any:
    """Exact number of configurations of the tree (no constraints); cards may be symbolic."""
    rels = relations_of(shape)
    rbp = rels_by_parent(shape)

    def cnt(i):
        total = 1
        for ri in rbp[i]:
            p, cs = rels[ri]
            mn, mx = cards[ri]
            sub = [cnt(c) for c in cs]
            acc = 0
            for j in range(0, len(cs) + 1):
                if mn <= j and (j <= mx or mx == -1):
                    acc = acc + esym(sub, j)
            total = total * acc
        return total
    return cnt(0)


def ref_forced(shape, cards) -> list:
    """forced[i] True iff feature i is selected in every configuration (no constraints),
    assuming the tree is satisfiable below every relation (min <= k): all children of a
    relation are forced by the parent iff min == k."""
    rels = relations_of(shape)
    n = n_features(shape)
    forced = [False] * n
    forced[0] = True
    link = ref_links(shape, cards)
    par = parents_of(shape)
    for i in range(1, n):  # preorder: parent index < child index
        forced[i] = bool(forced[par[i]] and link[i])
    return forced


def ref_links(shape, cards) -> list:
    """link[i] True iff feature i is selected whenever its parent is (min == k of its relation)."""
    rels = relations_of(shape)
    n = n_features(shape)
    link = [False] * n
    for ri, (p, cs) in enumerate(rels):
        mn, mx = cards[ri]
        full = (mn == len(cs))
        for c in cs:
            link[c] = full
    return link
