"""Native replay (plain CPython, no tracing).

  python -m fmverif.replay <replay.json>         exit 1 = violation reproduced, 0 = property holds
  python -m fmverif.replay --validate <cases>    prints a JSON summary line
"""
import importlib
import json
import os
import sys
import tempfile
import traceback


def _load_function(source, function):
    d = tempfile.mkdtemp(prefix='fmv_replay_')
    path = os.path.join(d, 'replay_mod.py')
    with open(path, 'w') as f:
        f.write(source)
    import importlib.util
    spec = importlib.util.spec_from_file_location('replay_mod_%d' % abs(hash(source)), path)
    mod = importlib.util.module_from_spec(spec)
    spec.loader.exec_module(mod)
    import shutil
    shutil.rmtree(d, ignore_errors=True)
    return getattr(mod, function)


def run_cond(case):
    fn = _load_function(case['source'], case['function'])
    try:
        r = fn(*case.get('args', []), **case.get('kwargs', {}))
    except Exception as exc:
        return False, '%s: %s' % (type(exc).__name__, exc) + ' @ ' + traceback.format_exc().strip().splitlines()[-3].strip()
    return bool(r), 'returned %r' % (r,)


def main(argv):
    sys.setrecursionlimit(10000)
    from fmverif import known
    if argv[0] == '--validate':
        with open(argv[1]) as f:
            spec = json.load(f)
        known.set_active(spec.get('active_known', []))
        failed = []
        ran = 0
        outside = []
        for i, case in enumerate(spec['cases']):
            # the validate arguments witness that the precondition is satisfiable: they must meet every pre: line
            try:
                import inspect
                fn = _load_function(case['source'], case['function'])
                bound = inspect.signature(fn).bind(*case.get('args', []), **case.get('kwargs', {}))
                for line in (fn.__doc__ or '').splitlines():
                    if line.strip().startswith('pre:'):
                        env = dict(fn.__globals__)
                        env.update(bound.arguments)
                        if not eval(line.split('pre:', 1)[1].strip(), env):
                            outside.append({'index': i, 'detail': 'validate arguments do not meet "%s"' % line.strip()})
                            break
            except Exception as exc:
                outside.append({'index': i, 'detail': 'precondition of the validate arguments could not be evaluated: %s: %s' % (type(exc).__name__, exc)})
            ok, detail = run_cond(case)
            ran += 1
            if not ok:
                failed.append({'index': i, 'detail': detail})
        print(json.dumps({'ran': ran, 'failed': failed, 'outside_pre': outside}))
        return 0
    with open(argv[0]) as f:
        case = json.load(f)
    known.set_active(case.get('active_known', []))
    if case['kind'] == 'cond':
        ok, detail = run_cond(case)
        print('replay %s%r -> %s' % (case['function'], tuple(case.get('args', [])), detail))
        print('REPRODUCED' if not ok else 'NOT REPRODUCED (property holds on this input)')
        return 0 if ok else 1
    mod = importlib.import_module(case['module'])
    if case['kind'] == 'batch':
        res = getattr(mod, case['func'])(*case['args']) or {}
        hits = [v for v in res.get('violations', []) if v['detail'] == case['expect_detail']]
        if hits:
            print('replay of the whole batch %s%r reproduces: %s' % (case['func'], tuple(case['args']), case['expect_detail']))
            print('REPRODUCED')
            return 1
        print('NOT REPRODUCED (batch re-run does not show the recorded violation)')
        return 0
    res = getattr(mod, case['func'])(*case['args'])
    if res:
        print('replay %s%r -> %s' % (case['func'], tuple(case['args']), res))
        print('REPRODUCED')
        return 1
    print('NOT REPRODUCED (property holds on this input)')
    return 0


if __name__ == '__main__':
    sys.exit(main(sys.argv[1:]))
