"""Engine self-test run by the bootstrap: micro-conditions that exercise the three engine patches
must be confirmed, seeded-false twins must be refuted (DESIGN.md section 5.3)."""
import json
import os
import subprocess
import sys
import tempfile

SRC = '''
import collections
DONE = collections.Counter()

def z1(n: str) -> bool:
    """
    pre: 1 <= len(n) <= 3
    pre: all(c in 'abc' for c in n)
    post: _
    """
    if n == 'Longer':
        return False
    return all(ch in 'abc' for ch in n) and len([ch for ch in n]) == len(n)

def z2(s: str) -> bool:
    """
    pre: len(s) <= 3
    post: _
    """
    x = chr(39) + s + chr(39)
    return x[1:-1] == s and s == x[1:-1] and x[1:len(x) - 1] == s

def z3(n: str) -> bool:
    """
    pre: 1 <= len(n) <= 2
    pre: all(c in 'Ro' for c in n)
    post: _
    """
    if n == 'Root':
        return False
    return (sorted([n, 'Root']) == [n, 'Root']) == (n < 'Root')

def z4(a: int, b: int) -> bool:
    """
    pre: 0 <= a <= b <= 9
    post: _
    """
    t = '[' + str(a) + '..' + str(b) + ']'
    parts = t[1:-1].split('..')
    return int(parts[0]) == a and int(parts[1]) == b

def z5(n: str) -> bool:
    """
    pre: 1 <= len(n) <= 2
    post: _
    """
    a = 'abcd' + n + 'XY'
    c = a[:4 + len(n)] + a[4 + len(n):]
    return c == a and a == c

def z6(n: str) -> bool:
    """
    pre: 1 <= len(n) <= 3
    post: _
    """
    r = ('A : ' + ' [2,2]{Aa ' + n + '}').strip() + ';' + chr(10)
    whole = '%R' + chr(10) + r + (n + '.cost: x;') + '%C'
    e = '%R' + chr(10) + 'A :  [2,2]{Aa ' + n + '};' + chr(10) + n + '.cost: x;%C'
    return len(whole) == len(e) and whole == e

def f1(s: str) -> bool:
    """
    pre: 1 <= len(s) <= 3
    post: _
    """
    x = chr(34) + s + chr(34)
    return x[1:-1] != s

def f3(n: str) -> bool:
    """
    pre: 1 <= len(n) <= 3
    post: _
    """
    a = 'ab' + n + 'cd'
    c = ('ab' + n)[:2 + len(n)] + 'c' + ('d' if n != 'Qz' else 'e')
    return c == a

def f2(a: int, b: int) -> bool:
    """
    pre: 0 <= a <= b <= 3
    post: _
    """
    return not (a == 1 and b == 2)

CONDITIONS = ['z1', 'z2', 'z3', 'z4', 'z5', 'z6', 'f1', 'f2', 'f3']
TIMEOUTS = {}
'''


def main():
    d = tempfile.mkdtemp(prefix='fmv_selftest_', dir=os.path.dirname(os.path.dirname(os.path.abspath(__file__))) + '/build'
                         if os.path.isdir(os.path.dirname(os.path.dirname(os.path.abspath(__file__))) + '/build') else None)
    try:
        path = os.path.join(d, 'selftest_mod.py')
        with open(path, 'w') as f:
            f.write(SRC)
        out = os.path.join(d, 'out.json')
        p = subprocess.run([sys.executable, '-m', 'fmverif.xhworker', path, out, '40'],
                           stdout=subprocess.PIPE, stderr=subprocess.PIPE, text=True, timeout=600)
        with open(out) as f:
            res = {r['name']: [m['state'] for m in r['messages']] for r in json.load(f)}
    finally:
        import shutil
        shutil.rmtree(d, ignore_errors=True)
    ok = True
    for n in ('z1', 'z2', 'z3', 'z4', 'z5', 'z6'):
        if res.get(n) != ['confirmed']:
            print('selftest: %s expected confirmed, got %s' % (n, res.get(n)), file=sys.stderr)
            ok = False
    for n in ('f1', 'f2', 'f3'):
        if res.get(n) != ['post_fail']:
            print('selftest: %s expected refuted, got %s' % (n, res.get(n)), file=sys.stderr)
            ok = False
    print('engine self-test: %s %s' % ('ok' if ok else 'FAILED', res), file=sys.stderr)
    return 0 if ok else 2


if __name__ == '__main__':
    sys.exit(main())
