"""Worker: runs CrossHair (API, no audit wall) over the condition functions of one generated file.

usage: python -m fmverif.xhworker <file.py> <out.json> <per_condition_timeout>

The generated file defines CONDITIONS = [function names].  Results are written after every
condition so that an outer kill leaves a usable partial file.
"""
import sys
import os
import json
import time
import importlib.util
import collections
import traceback


def main(argv):
    path, out, timeout = argv[0], argv[1], float(argv[2])
    sys.setrecursionlimit(10000)
    import z3
    counters = collections.Counter()
    timers = collections.Counter()
    _check = z3.Solver.check

    def check(self, *a):
        counters['smt'] += 1
        t = time.perf_counter()
        try:
            return _check(self, *a)
        finally:
            timers['smt'] += time.perf_counter() - t
    z3.Solver.check = check

    from crosshair.core_and_libs import analyze_function, run_checkables
    from crosshair.options import AnalysisOptionSet, AnalysisKind
    from crosshair.statespace import StateSpace, MessageType
    _init = StateSpace.__init__

    def init(self, *a, **k):
        counters['paths'] += 1
        return _init(self, *a, **k)
    StateSpace.__init__ = init

    # Engine configuration: never *speculatively* skip a call (CrossHair replaces calls to builtins such
    # as hash() by a fresh symbolic value with 30% probability and reconciles later; on this code base
    # that only multiplies paths).  Explicit contracts / specs_complete are still honoured.
    import crosshair.core as _core
    _consider = _core.consider_shortcircuit

    def consider_shortcircuit(fn, sig, bound, subconditions, allow_interpretation):
        if allow_interpretation:
            return None
        return _consider(fn, sig, bound, subconditions, allow_interpretation)
    _core.consider_shortcircuit = consider_shortcircuit

    spec = importlib.util.spec_from_file_location(os.path.basename(path)[:-3], path)
    module = importlib.util.module_from_spec(spec)
    sys.modules[spec.name] = module
    spec.loader.exec_module(module)

    results = []

    def flush():
        tmp = out + '.tmp'
        with open(tmp, 'w') as f:
            json.dump(results, f)
        os.replace(tmp, out)

    for name in module.CONDITIONS:
        fn = getattr(module, name)
        tmo = getattr(module, 'TIMEOUTS', {}).get(name, timeout)
        opts = AnalysisOptionSet(per_condition_timeout=tmo, report_all=True,
                                 analysis_kind=(AnalysisKind.PEP316,))
        counters.clear()
        timers.clear()
        done0 = getattr(module, 'DONE', None)
        if done0 is not None:
            done0.clear()
        t0 = time.perf_counter()
        rec = {'name': name, 'file': path}
        try:
            msgs = run_checkables(analyze_function(fn, opts))
            rec['messages'] = [{'state': m.state.value, 'message': m.message, 'line': m.line,
                                'traceback': (m.traceback or '')[-1500:]} for m in msgs]
        except BaseException as exc:  # engine crash: inconclusive
            rec['messages'] = [{'state': 'engine_crash', 'message': f'{type(exc).__name__}: {exc}',
                                'line': 0, 'traceback': traceback.format_exc()[-1500:]}]
        rec['wall_s'] = round(time.perf_counter() - t0, 3)
        rec['paths'] = counters['paths']
        rec['smt'] = counters['smt']
        rec['smt_s'] = round(timers['smt'], 3)
        rec['done'] = dict(done0) if done0 is not None else None
        try:
            from fmverif import known as _k
            rec['known_hits'] = dict(_k.HITS)
            _k.HITS.clear()
        except Exception:
            rec['known_hits'] = {}
        results.append(rec)
        flush()
    flush()


if __name__ == '__main__':
    main(sys.argv[1:])
