#!/usr/bin/env python3
"""Regenerates MANIFEST.json from the table below (kept in one place so that it stays valid)."""
import json
import os

HERE = os.path.dirname(os.path.abspath(__file__))
BASE = "cd /repo && /venv/bin/python -m pytest -ra -q -p no:cacheprovider --timeout=900 --continue-on-collection-errors"

CHECKS = {
    'C03': dict(
        category='model_checking', design_ref='6 C03',
        technique='CrossHair symbolic execution (z3) of Relation/Feature/FeatureModel queries on symbolic cardinalities, types and names; py2smt translation of Relation.is_* decided by z3 and cvc5',
        text='Bounded symbolic execution of the real query methods: the relation partition is decided for unbounded min/max/child count; '
             'all other queries for every tree shape up to the size bound with all cardinalities, one feature type / feature cardinality and one name symbolic. '
             'Holds-within-bound or replayed counterexample; not a proof.',
        note='Trusted: CrossHair 0.0.110 with the three recorded engine patches, z3 5.1, the reference tree facts in fmverif/refsem.py; tree shapes are enumerated (N<=4 quick, N<=5 thorough).'),
    'C13': dict(
        category='model_checking', design_ref='6 C13',
        technique='CrossHair symbolic execution (z3) of count_configurations_rec against a closed-form count on symbolic cardinalities; z3 AllSAT model counts of the reference semantics with and without constraints',
        text='Per tree shape the real estimate runs on symbolic (min,max) pairs and must equal the closed-form exact count (decided over all cardinalities); '
             'z3 counts configurations of tree /\\ constraints for the upper-bound half and validates the closed form. Bounded; not a proof.',
        note='Trusted: CrossHair + engine patches, z3, reference semantics tree2z3; shapes enumerated N<=4/6; constraints: 1-2 trees of depth<=1. Random shapes up to 16/40 features and the shipped corpus run natively against the closed form (counted apart); the result examined is that of the second execution of one operation object.'),
    'C14': dict(
        category='model_checking', design_ref='6 C14',
        technique='CrossHair symbolic execution (z3) of get_core_features on symbolic cardinalities vs forced-set closed form; z3 queries (T and ctcs and not f unsat) per returned feature',
        text='Per tree shape, all cardinalities symbolic: result == always-selected set, no duplicates, root included; with constraints every returned feature is z3-proved present in all configurations. Bounded.',
        note='Trusted: CrossHair + patches, z3, tree2z3; the closed form is validated against z3 on every enumerated constraint-free instance. Shapes N<=5/6 (E1), N<=4/5 (E2); simple constraints between every ordered pair of features; random larger shapes and the corpus natively.'),
    'C15': dict(
        category='model_checking', design_ref='6 C15',
        technique='CrossHair symbolic execution (z3) of get_atomic_sets on symbolic cardinalities vs co-selection closed form; z3 queries (T and ctcs and (f xor g) unsat) per pair',
        text='Per tree shape, all cardinalities symbolic: partition, same-set pairs always co-selected, mandatory child with parent; with constraints co-selection is decided by z3. Bounded.',
        note='Trusted: CrossHair + patches, z3, tree2z3; closed form validated against z3. Shapes N<=5/6 (E1), N<=4/5 (E2).'),
    'C16': dict(
        category='model_checking', design_ref='6 C16',
        technique='CrossHair symbolic execution (z3) of the six tree operations with symbolic cardinalities and symbolic leaf-group widths vs reference tree facts; exhaustive shape enumeration',
        text='Shapes are enumerated (enumeration); cardinalities and the widths of leaf groups are solver variables; every operation result must equal the reference tree fact on every path, incl. ancestors of every feature and the root-only model. Bounded.',
        note='Trusted: CrossHair + patches, z3, reference tree facts. N<=5/6, widths<=4/6; the corpus clause (48 / 1299 shipped files) and random larger shapes are concrete runs against the same definitions, not solver verdicts.'),
    'C18': dict(
        category='model_checking', design_ref='6 C18',
        technique='z3 equivalence queries over all truth assignments on what the real Constraint predicates / split_constraint returned for every enumerated expression tree; CrossHair symbolic execution of get_features / get_new_ctc_name on symbolic names',
        text='Expression trees are enumerated (all depth<=1 over all 23 operators, depth 2 over the 8 logical operators: restricted in quick, all 59049 in thorough, plus seeded deeper ones); for each tree the real functions run and z3 decides the assignment quantifier '
             '(requires/excludes soundness, split equivalence). Names are symbolic in the CrossHair conditions. Bounded.',
        note='Trusted: z3, CrossHair + patches, the reference truth tables in refsem.py (ast2z3 is cross-checked against tree2z3_expr on every tree). flamapy.core is executed as is; its simplify_formula defect is a listed known finding.'),
    'C20': dict(
        category='model_checking', design_ref='6 C20',
        technique='CrossHair symbolic execution (z3) of __eq__/__hash__/__lt__ with symbolic names, cardinalities and Lehmer-coded permutations of names, children, relations and constraints',
        text='Two independently built models per path: the permuted copy must be equal both ways with equal hash for every permutation code and every cardinality; a rename or a cardinality change must make them unequal. '
             'Structural edits without payload (move, split, merge, constraint operator/operand) are enumerated natively per shape. Bounded.',
        note='Trusted: CrossHair + patches, z3. hash() only on concrete names/cards. Shapes N<=4/5 (E1), N<=5/6 (native edits).'),
    'C17': dict(
        category='model_checking', design_ref='6 C17',
        technique='CrossHair symbolic execution (z3) of FMMetrics.execute and all 40 metric methods on symbolic cardinalities and abstract flags vs reference definitions, identities and ratios; two-model histories',
        text='Per tree shape the whole report is computed by the real code on symbolic cardinalities / abstract flags and compared with definitions computed from the shape, the splitting identities, size/ratio rules and the stand-alone operations; '
             'a second model analysed on the same object must equal a fresh analysis. Names concrete (the code hashes them). Bounded.',
        note='Trusted: CrossHair + patches, z3, reference definitions in fmverif/props/c17.py. Shapes N<=4/5; constraint lists are five concrete sets; filters: one rotating pair per shape symbolic-cards, every single metric / every ordered pair / random subsets natively; corpus and random larger shapes natively.'),
    'C19': dict(
        category='model_checking', design_ref='6 C19',
        technique='CrossHair symbolic execution (z3) of every operation in two-model histories with symbolic cardinalities, and of GenerateRandomAttribute with a stubbed random whose draws, range bounds and flags are symbolic',
        text='Snapshot before/after and result-vs-fresh-object equality for all ten read-only operations over symbolic cardinalities of both models; random attribute generation is decided for all draws of the random stub, all integer range bounds, all target masks. Bounded.',
        note='Trusted: CrossHair + patches, z3, the random stub contract (choice/randint/uniform), snapshot(). Histories of 2 (E1) / 3 (native). Float ranges limited to the 9-point stub.'),
    'C05': dict(
        category='model_checking', design_ref='6 C01/C05/C06/C07/C08',
        technique='CrossHair symbolic execution (z3) of json_writer.to_json composed with JSONReader.parse_json at dict level on symbolic names, cardinalities, flags and attribute values; z3 equivalence of constraint skeletons',
        text='Writer and reader run symbolically end to end at dict level (json.dump/load is a stub): one cycle from an arbitrary fragment model gives the same model and the same dict (inductive step), cycles 2 and 3 are executed too; '
             'the file boundary and parse_json-vs-file are exercised natively on every shape and on a list of hostile names. Bounded.',
        note='Trusted: CrossHair + patches, z3, snapshot(), the json stub contract. N<=4/5, |name|<=3/4, attribute ints unbounded.'),
    'C07': dict(
        category='model_checking', design_ref='6 C01/C05/C06/C07/C08',
        technique='CrossHair symbolic execution (z3) of featureide_writer._to_featureidexml composed with FeatureIDEReader._read_features/_read_constraints at Element level on symbolic names, cardinalities and flags; z3 equivalence of constraint skeletons',
        text='Writer and reader run symbolically end to end on ElementTree objects (tostring/minidom/parse is a stub): cycle 1 gives the same tree, flags and equivalent constraints; cycles 2 and 3 change nothing further. '
             'The file boundary is exercised natively on every fragment shape and on hostile names. Bounded.',
        note='Trusted: CrossHair + patches, z3, snapshot(), the XML stub contract. N<=4/5 within the FeatureIDE fragment, |name|<=3/4.'),
    'C08': dict(
        category='model_checking', design_ref='6 C01/C05/C06/C07/C08',
        technique='CrossHair symbolic execution (z3) of glencoe_writer._to_json composed with GlencoeReader._parse_tree/_parse_constraints at dict level on symbolic cardinalities within the Glencoe fragment; z3 equivalence of constraint skeletons',
        text='Writer and reader run symbolically at dict level for every fragment shape with all cardinalities symbolic (group kinds, optional flags, GENOR min/max); names are concrete because the code hashes them, so the name quantifier is covered by the native file sweep only. Bounded.',
        note='Trusted: CrossHair + patches, z3, the json stub contract. N<=4/5 within the Glencoe fragment. Name alphabet: native sweep, not solver-decided.'),
    'C10': dict(
        category='translation_validation', design_ref='6 C10',
        technique='z3 equivalence queries (all 2^n selections at once) between the reference configuration semantics and independent interpreters of the exported SXFM / propositional text, per enumerated model; CrossHair symbolic execution (z3) of both writers on a symbolic feature name (export == placeholder export with the name substituted)',
        text='Every export is treated as a program: the real writers run on every enumerated model (all shapes, all cardinalities, constraint trees over the eight logical operators), the text is interpreted by an independent interpreter of the target format, '
             'and one z3 query per program decides equivalence with the source semantics over all selections; a sat answer is a concrete disagreeing selection. Bounded.',
        note='Trusted: z3, tree2z3 reference semantics, the interpreters in fmverif/props/interp.py, CrossHair + engine patches for the name conditions (|name|<=3/4, identifier characters, not a connective of the format; SPLOT: non-root features, name outside the constraints). N<=4/5. AST.get_clauses (dependency) runs as is; its XOR/EQUIVALENCE defect is a listed known finding.'),
    'C11': dict(
        category='translation_validation', design_ref='6 C11',
        technique='z3 equivalence queries (all 2^n selections at once) between the reference configuration semantics and an independent interpreter of the emitted Clafer subset, per enumerated model; identifier consistency on the parsed text; CrossHair symbolic execution (z3) of the writer on a symbolic feature name (export == placeholder export with the name substituted)',
        text='The real Clafer writer runs on every enumerated fragment model with constraints and attributes; the text is interpreted under Clafer group / cardinality semantics and one z3 query per program decides equivalence over all selections; declarations and uses of identifiers are compared. Bounded.',
        note='Trusted: z3, tree2z3, interp.clafer2z3, CrossHair + engine patches for the name conditions (|name|<=3/4, identifier characters, not a Clafer word, non-root features; attribute names stay with the native lists). N<=4/5 within the Clafer fragment.'),
    'C01': dict(
        category='model_checking', design_ref='6 C01/C05/C06/C07/C08',
        technique='CrossHair symbolic execution (z3) of the UVL writer leaves and whole writer composed with the real UVLReader.transform() on real parse trees whose payload tokens carry symbolic text (token substitution; lexer as a validated contract)',
        text='Group and feature cardinalities, names and attribute values are symbolic: the real writer leaf produces the piece, the piece becomes the text of the payload token of a really parsed template, the real reader runs on the tree, '
             'and the whole-model writer text is tied to the pieces. Files, lexer and parser run for real in native batches over shapes, the name alphabet and all depth<=2 constraint trees. Bounded.',
        note='Trusted: CrossHair + patches, z3, the lexer contract (probed from and validated against the installed lexer on every run), snapshot(). N<=4/5, |name|<=3/4, rendered ints bounded. Induction over cycles is an argument on paper; cycles 2-3 run natively.'),
    'C06': dict(
        category='model_checking', design_ref='6 C01/C05/C06/C07/C08',
        technique='CrossHair symbolic execution (z3) of the AFM writer leaves and whole writer composed with the real AFMReader.transform() on real parse trees whose INT / WORD tokens carry symbolic text (token substitution; lexer as a validated contract)',
        text='Cardinalities, a WORD name and integer-range bounds are symbolic and flow writer leaf -> token of a really parsed template -> real reader; the whole writer text is tied to the pieces. '
             'Files, lexer and parser run for real in native batches over shapes, names and depth<=2 constraint trees. Bounded.',
        note='Trusted: CrossHair + patches, z3, the WORD contract (validated against the installed lexer). N<=4/5, |name|<=3/4, ints 0..99.'),
    'C09': dict(
        category='model_checking', design_ref='6 C09',
        technique='CrossHair symbolic execution (z3) of the FeatureIDE / FaMa / Glencoe reader functions on documents built by independent reference emitters with symbolic cardinalities, names and surface-choice Booleans; z3 equivalence of constraints',
        text='Reference emitters render a reference model as Element trees / dicts under symbolic surface choices (attribute presence and value, order, extra elements, n-ary rules, cardinality placement, tag case); the real readers run on them and must return the reference model. '
             'AFM text variants and the 1299 shipped FaMa files (against Betty statistics) are concrete runs reported apart. Bounded.',
        note='Trusted: CrossHair + patches, z3, the reference emitters in fmverif/props/c09.py. N<=4/5. FaMa/Glencoe names concrete. Corpus and AFM variants are not solver coverage.'),
    'C04': dict(
        category='model_checking', design_ref='6 C04',
        technique='CrossHair symbolic execution (z3) of UVLReader.transform() on really parsed documents of an independent reference emitter whose cardinality and identifier tokens carry symbolic text, with symbolic surface choices; concrete corruption runs for the negative half',
        text='An independent reference emitter renders a reference model under surface choices; the real lexer and parser parse it, payload tokens get symbolic text, the real reader must return the reference model (cardinalities incl. [n], [n..m], [n..*], keyword vs cardinality syntax; names quoted or plain). '
             'All 2^8 surface combinations run natively on sampled shapes; syntax-error documents are concrete runs counted apart. Bounded.',
        note='Trusted: CrossHair + patches, z3, the reference emitter in fmverif/props/c04.py, the lexer contract. N<=4/5. The negative half and the exhaustive surface sweep are concrete, not solver coverage.'),
    'C02': dict(
        category='model_checking', design_ref='6 C02',
        technique='CrossHair symbolic execution (z3) of all six readers (dict / Element level, token substitution for UVL and AFM) on writer output and reference documents with symbolic cardinalities, followed by an attribute-walk of the structural invariants',
        text='For every reader and every tree shape the document is produced from symbolic cardinalities and read by the real reader code; the result must be a proper tree (parents, owners, non-empty relations, attribute owners) with constraints in the consumable AST form. '
             'Every depth<=2 constraint tree goes through every reader natively. Bounded.',
        note='Trusted: CrossHair + patches, z3, the invariants in fmverif/props/c02.py, stubs of the file parsers as in the round-trip checks. N<=4/5.'),
    'C12': dict(
        category='model_checking', design_ref='6 C12',
        technique='CrossHair symbolic execution (z3) of all eight writers on symbolic cardinalities / names with (a) snapshot purity and repeatability, (b) a sink in place of open() to compare returned and written content and the encoding, (c) writer modules re-loaded with sets as NDSet under a symbolic iteration permutation',
        text='Purity and repeatability for all cardinalities; returned value == written content and explicit UTF-8 for symbolic (also non-ASCII) names; output equal under every permutation code of every set iteration (hash-seed independence as a solver variable). '
             'Fresh processes under varied PYTHONHASHSEED / locale / default encoding are concrete runs counted apart. Bounded.',
        note='Trusted: CrossHair + patches, z3, the NDSet rewrite and the open() sink. N<=4/5. Real locales and process start-up are exercised concretely only.'),
}

NOT_YET = {}


def main():
    props = [json.loads(l) for l in open(os.path.join(HERE, 'properties.jsonl'))]
    checks = []
    na = []
    for p in props:
        pid = p['id']
        if pid in CHECKS:
            c = CHECKS[pid]
            checks.append({
                'property_id': pid,
                'quick_cmd': './fmv check %s --tier quick' % pid,
                'thorough_cmd': './fmv check %s --tier thorough' % pid,
                'evidence_file': 'evidence/%s.json' % pid,
                'replay_cmd_template': './fmv replay {path}',
                'engine': 'fmverif',
                'level_claimed': {'category': c['category'], 'text': c['text'], 'design_ref': c['design_ref']},
                'level_note': c['note'],
                'technique': c['technique'],
            })
        else:
            na.append({'property_id': pid, 'reason': NOT_YET.get(pid, 'check not built yet in this session (planned in DESIGN.md section 6); not claimed until it runs')})
    man = {
        'version': 1,
        'setup_cmd': './fmv setup',
        'hooks': {
            'guard': 'FLAMAPY_FM_METAMODEL_VERIF',
            'enable': 'no source hooks: all stubbing is done from /verif (instance attributes, module reloading); fmv exports FLAMAPY_FM_METAMODEL_VERIF=1 for uniformity',
            'baseline_off_cmd': BASE,
            'source_commits': [],
            'add_only': True,
        },
        'engines': [{'name': 'fmverif', 'path': 'fmverif/', 'serves_properties': sorted(CHECKS),
                     'kind_free_text': 'bounded symbolic execution of the real Python code (CrossHair + z3), direct z3/cvc5 queries on what the real code returned, Python-AST-to-SMT translation of leaf predicates'}],
        'checks': checks,
        'not_applicable': na,
        'notes': 'Exit 0 = held on everything explored (known findings and inconclusive conditions are printed); 1 = replayed violation; 2 = harness error (never a verdict).',
    }
    with open(os.path.join(HERE, 'MANIFEST.json'), 'w') as f:
        json.dump(man, f, indent=1)


if __name__ == '__main__':
    main()
