#!/usr/bin/env python3
"""Regenerates MANIFEST.json from the table below (kept in one place so that it stays valid)."""
import json
import os

HERE = os.path.dirname(os.path.abspath(__file__))
BASE = "cd /repo && /venv/bin/python -m pytest -ra -q -p no:cacheprovider --timeout=900 --continue-on-collection-errors"

CHECKS = {
    'C03': dict(
        category='model_checking', design_ref='6 C03',
        technique='CrossHair symbolic execution (z3) of Relation/Feature/FeatureModel queries on symbolic cardinalities, types and names; py2smt translation of Relation.is_* decided by z3 and cvc5',
        text='Bounded symbolic execution of the real query methods: the relation partition is decided for unbounded min/max/child count; '
             'all other queries for every tree shape up to the size bound with all cardinalities, one feature type / feature cardinality and one name symbolic. '
             'Holds-within-bound or replayed counterexample; not a proof.',
        note='Trusted: CrossHair 0.0.110 with the two recorded engine patches, z3 5.1, the reference tree facts in fmverif/refsem.py; tree shapes are enumerated (N<=4 quick, N<=5 thorough).'),
}

NOT_YET = {}


def main():
    props = [json.loads(l) for l in open(os.path.join(HERE, 'properties.jsonl'))]
    checks = []
    na = []
    for p in props:
        pid = p['id']
        if pid in CHECKS:
            c = CHECKS[pid]
            checks.append({
                'property_id': pid,
                'quick_cmd': './fmv check %s --tier quick' % pid,
                'thorough_cmd': './fmv check %s --tier thorough' % pid,
                'evidence_file': 'evidence/%s.json' % pid,
                'replay_cmd_template': './fmv replay {path}',
                'engine': 'fmverif',
                'level_claimed': {'category': c['category'], 'text': c['text'], 'design_ref': c['design_ref']},
                'level_note': c['note'],
                'technique': c['technique'],
            })
        else:
            na.append({'property_id': pid, 'reason': NOT_YET.get(pid, 'check not built yet in this session (planned in DESIGN.md section 6); not claimed until it runs')})
    man = {
        'version': 1,
        'setup_cmd': './fmv setup',
        'hooks': {
            'guard': 'FLAMAPY_FM_METAMODEL_VERIF',
            'enable': 'no source hooks: all stubbing is done from /verif (instance attributes, module reloading); fmv exports FLAMAPY_FM_METAMODEL_VERIF=1 for uniformity',
            'baseline_off_cmd': BASE,
            'source_commits': [],
            'add_only': True,
        },
        'engines': [{'name': 'fmverif', 'path': 'fmverif/', 'serves_properties': sorted(CHECKS),
                     'kind_free_text': 'bounded symbolic execution of the real Python code (CrossHair + z3), direct z3/cvc5 queries on what the real code returned, Python-AST-to-SMT translation of leaf predicates'}],
        'checks': checks,
        'not_applicable': na,
        'notes': 'Exit 0 = held on everything explored (known findings and inconclusive conditions are printed); 1 = replayed violation; 2 = harness error (never a verdict).',
    }
    with open(os.path.join(HERE, 'MANIFEST.json'), 'w') as f:
        json.dump(man, f, indent=1)


if __name__ == '__main__':
    main()
