#!/usr/bin/env python3
"""Re-run the registered check of a stored seeded change against it (regression of the machinery).
usage: tools_seedcheck.py [--tier quick|thorough] <seed> [<seed> ...]      (seed = directory name under /verif/seeded, or 'all')
For each seed: git -C /repo apply patch.diff; ./fmv check <PROP>; git -C /repo checkout -- . ; report caught / missed.
Never leaves /repo modified; refuses to start when /repo is dirty. Evidence files touched by these runs are restored."""
import json, os, subprocess, sys, time
args = sys.argv[1:]
tier = 'quick'
use_wt = False
if args and args[0] == '--worktree':      # do not touch /repo: apply the patch in a scratch worktree and point the check at it (FMV_REPO)
    use_wt = True
    args = args[1:]
if args and args[0] == '--tier':
    tier = args[1]
    args = args[2:]
root = '/verif/seeded'
seeds = sorted(os.listdir(root)) if args == ['all'] else args


def sh(cmd, cwd=None, timeout=7200):
    p = subprocess.run(cmd, shell=True, cwd=cwd, stdout=subprocess.PIPE, stderr=subprocess.STDOUT, text=True, timeout=timeout)
    return p.returncode, p.stdout


if not use_wt:
    assert sh('git -C /repo status --porcelain')[1].strip() == '', '/repo is dirty'
results = {}
for s in seeds:
    d = os.path.join(root, s)
    meta = json.load(open(d + '/meta.json'))
    prop = meta.get('breaks') or meta.get('property')
    if meta.get('obsolete'):
        print('%s: obsolete (%s)' % (s, meta['obsolete'][:90]))
        results[s] = 'obsolete'
        continue
    ev = '/verif/evidence/%s.json' % prop
    saved = open(ev).read() if os.path.exists(ev) else None
    tree = '/repo'
    if use_wt:
        tree = '/tmp/seedchk_%s' % s
        sh('git -C /repo worktree remove --force %s' % tree)
        rc, o = sh('git -C /repo worktree add -q --detach %s HEAD' % tree)
        assert rc == 0, o
    rc, o = sh('git apply %s/patch.diff' % d, cwd=tree)
    if rc != 0:
        print('%s: PATCH DOES NOT APPLY: %s' % (s, o[:300]))
        results[s] = 'no-apply'
        if use_wt:
            sh('git -C /repo worktree remove --force %s' % tree)
        continue
    try:
        t0 = time.time()
        rc, o = sh(('FMV_REPO=%s ' % tree if use_wt else '') + './fmv check %s --tier %s' % (prop, tier), cwd='/verif')
        wall = time.time() - t0
    finally:
        if use_wt:
            sh('git -C /repo worktree remove --force %s' % tree)
        else:
            sh('git checkout -- .', cwd='/repo')
            assert sh('git -C /repo status --porcelain')[1].strip() == ''
        if saved is not None:
            open(ev, 'w').write(saved)
    viol = [l for l in o.splitlines() if l.startswith('VIOLATION')]
    caught = rc == 1 and any('property=%s' % prop in l for l in viol)
    results[s] = 'caught' if caught else ('HARNESS rc=%d' % rc if rc not in (0, 1) else 'MISSED')
    print('%s: %s rc=%d %.0fs violations=%d' % (s, results[s], rc, wall, len(viol)))
    shown = 0
    for l in o.splitlines():
        if l.startswith('  ') and 'violat' in l.lower():
            print('   ', l[:200])
        elif l.startswith('  detail:') and shown < 2:
            shown += 1
            print('   ', l[:260])
    sys.stdout.flush()
print(json.dumps(results))
