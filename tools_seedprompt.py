#!/usr/bin/env python3
"""Prints the prompt for a seeding sub-agent: property text only (nothing from /verif machinery)."""
import json, sys
pid, tag = sys.argv[1], sys.argv[2]
p = [json.loads(l) for l in open('/verif/properties.jsonl') if json.loads(l)['id'] == pid][0]
wt = '/tmp/seed_wt_%s_%s' % (pid, tag)
out = '/tmp/seed_out_%s_%s' % (pid, tag)
import glob
prev = []
for f in sorted(glob.glob("/verif/seeded/%s-*/meta.json" % pid)):
    prev.append(json.load(open(f)).get("summary", "")[:400])
AVOID = ("Ideas that were ALREADY used for this property and must NOT be repeated (choose a different mechanism, a different function, and a different kind of trigger):\n" + "\n".join("- " + x for x in prev) + "\n\n") if prev else ""
print(f"""You are helping to evaluate a verification framework for the Python library flamapy/fm_metamodel (a feature-model metamodel with readers/writers and analysis operations).

Your job: produce ONE realistic, subtle code change (a "seeded defect") to the library that BREAKS the semantic property below, while the library still imports fine and its existing test suite still passes.

Your private git worktree of the library is at: {wt}   (work ONLY there; never touch /repo or /verif, and do not read anything under /verif).
Run python with the worktree's code like this (the PYTHONPATH is essential, otherwise /repo's copy is imported):
    cd {wt} && PYTHONPATH={wt} /venv/bin/python your_script.py
Run the existing test suite like this (must still report 144 passed after your change):
    cd {wt} && PYTHONPATH={wt} /venv/bin/python -m pytest -q -p no:cacheprovider tests
The package lives in {wt}/flamapy/metamodels/fm_metamodel (models/, operations/, transformations/). The dependency flamapy.core is in /venv/lib/python3.12/site-packages/flamapy/core (do not modify it).

PROPERTY {p['id']}: {p['title']}
Statement: {p['statement']}
Quantifier: {p['quantifier']['text']}
Code the property is anchored in: {', '.join(p['anchors']['files'])}

Requirements for the change:
- It must be a plausible maintenance/refactoring/optimisation mistake in the files above (or code they call), NOT a blatant sabotage: small diff (roughly 1-15 lines), compiles, and the 144 existing tests still pass.
- It must NOT be exposed by ordinary, typical use at once. Prefer a change that needs something specific to manifest: an unusual but legal input (particular cardinalities, several relations under one parent, particular tree shape, particular names or characters, a particular operator combination), a multi-step sequence of operations (e.g. the same object used twice), or two cooperating sites that each look fine alone.
- It must violate the property as stated (for an input inside the property's quantifier), not merely change unspecified behaviour.

Deliverables, all written into the directory {out} (create it):
1. patch.diff  - output of `git -C {wt} diff` for your change (apply-able with `git apply` at the library root).
2. demo.py     - a small stand-alone script that exits 0 (prints PASS) on the ORIGINAL code and exits 1 (prints FAIL and why) with your change applied. It must only use the library's public API. It is run as: cd <lib root> && PYTHONPATH=<lib root> /venv/bin/python demo.py
3. meta.json   - {{"property": "{p['id']}", "summary": "...what was changed...", "needs": "...what specific input/sequence is needed to manifest...", "why_tests_pass": "..."}}
{AVOID}Before finishing, verify yourself: (a) with the change, the 144 tests pass and demo.py exits 1; (b) on the original code (`git -C {wt} diff > {out}/patch.diff; git -C {wt} apply -R {out}/patch.diff`), demo.py exits 0; then `git -C {wt} apply {out}/patch.diff` to leave the change applied. Do NOT use `git stash` (the stash is shared between worktrees and other agents are working in parallel). Report briefly what you did.""")
