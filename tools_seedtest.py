#!/usr/bin/env python3
"""Confirm a seeded change and run the property's check against it.
usage: tools_seedtest.py <PROP> <tag> [tier]
 - confirms in the agent's scratch worktree: 144 tests pass with the change, demo fails with / passes without
 - applies patch to /repo, runs ./fmv check PROP, reverts /repo
 - stores /verif/seeded/<PROP>-<tag>/ {patch.diff, demo.py, meta.json}
"""
import json, os, shutil, subprocess, sys, time
prop, tag = sys.argv[1], sys.argv[2]
tier = sys.argv[3] if len(sys.argv) > 3 else 'quick'
wt = '/tmp/seed_wt_%s_%s' % (prop, tag)
out = '/tmp/seed_out_%s_%s' % (prop, tag)
dest = '/verif/seeded/%s-%s' % (prop, tag)
def sh(cmd, cwd=None, env=None, timeout=3000):
    e = dict(os.environ); e.update(env or {})
    p = subprocess.run(cmd, shell=True, cwd=cwd, env=e, stdout=subprocess.PIPE, stderr=subprocess.STDOUT, text=True, timeout=timeout)
    return p.returncode, p.stdout
meta = json.load(open(out + '/meta.json'))
ran = {}
assert sh('git -C /repo status --porcelain')[1].strip() == '', '/repo is dirty'
# fresh confirmation in a new scratch worktree at /repo HEAD
cw = '/tmp/seed_confirm_%s_%s' % (prop, tag)
sh('git -C /repo worktree remove --force %s' % cw)
rc, o = sh('git -C /repo worktree add -q --detach %s HEAD' % cw); assert rc == 0, o
try:
    env = {'PYTHONPATH': cw}
    rc0, o0 = sh('/venv/bin/python %s/demo.py' % out, cwd=cw, env=env)
    ran['demo_without_change_rc'] = rc0
    rc, o = sh('git apply %s/patch.diff' % out, cwd=cw)
    ran['patch_applies'] = (rc == 0)
    if rc != 0:
        print('PATCH DOES NOT APPLY to current HEAD:', o[:500])
    rc1, o1 = sh('/venv/bin/python %s/demo.py' % out, cwd=cw, env=env)
    ran['demo_with_change_rc'] = rc1
    ran['demo_with_change_out'] = o1[-400:]
    rct, ot = sh('/venv/bin/python -m pytest -q -p no:cacheprovider tests 2>&1 | tail -1', cwd=cw, env=env)
    ran['tests_with_change'] = ot.strip()
finally:
    sh('git -C /repo worktree remove --force %s' % cw)
confirmed = ran.get('patch_applies') and ran['demo_without_change_rc'] == 0 and ran['demo_with_change_rc'] == 1 and '144 passed' in ran['tests_with_change']
print('confirmed:', confirmed, ran)
detected = None
if confirmed:
    tree = '/repo'
    if os.environ.get('SEED_WT'):          # leave /repo alone: apply the change in a scratch worktree and point the check at it
        tree = '/tmp/seed_run_%s_%s' % (prop, tag)
        sh('git -C /repo worktree remove --force %s' % tree)
        rc, o = sh('git -C /repo worktree add -q --detach %s HEAD' % tree); assert rc == 0, o
    rc, o = sh('git apply %s/patch.diff' % out, cwd=tree); assert rc == 0, o
    evf = '/verif/evidence/%s.json' % prop
    saved_ev = open(evf).read() if os.path.exists(evf) else None
    try:
        t0 = time.time()
        rc, o = sh(('FMV_REPO=%s ' % tree if tree != '/repo' else '') + './fmv check %s --tier %s' % (prop, tier), cwd='/verif')
        ran['check_cmd'] = './fmv check %s --tier %s' % (prop, tier)
        ran['check_rc'] = rc
        ran['check_wall_s'] = round(time.time() - t0, 1)
        ran['check_tail'] = '\n'.join(o.strip().splitlines()[-6:])[-1500:]
        detected = (rc == 1 and 'VIOLATION property=%s' % prop in o)
    finally:
        if tree == '/repo':
            sh('git checkout -- .', cwd='/repo')
            assert sh('git -C /repo status --porcelain')[1].strip() == ''
        else:
            sh('git -C /repo worktree remove --force %s' % tree)
        if saved_ev is not None:
            open(evf, 'w').write(saved_ev)
    print('check rc', ran['check_rc'], 'detected:', detected)
    print(ran['check_tail'])
    os.makedirs(dest, exist_ok=True)
    shutil.copy(out + '/patch.diff', dest + '/patch.diff')
    shutil.copy(out + '/demo.py', dest + '/demo.py')
    meta.update({'breaks': prop, 'confirmed_by': 'fresh scratch worktree of /repo HEAD: demo exits 0 without and 1 with the change; 144 tests pass with the change',
                 'ran': ran, 'detected_by_quick_check': detected if tier == 'quick' else None, 'tier_run': tier})
    json.dump(meta, open(dest + '/meta.json', 'w'), indent=1)
